"""C16 (extension) - beam, pixel-scale and separation helpers of AegeanTools/wcs_helpers.py.

Hooked into the C16 check: tools/harness/c16.py calls run_extra(ctx, model_ok) at the end of run() and search_extra(ctx) at the
start of search(); EXTRA_TARGETS / GEN / TRUSTED / ASSUMPTIONS there are extended by the constants of this module.

  discrete parts (exact, Eval vm_compute of Model/WcsBeam.v):
    get_pixinfo      all 64 presence masks of CDELT1 CDELT2 CD1_1 CD1_2 CD2_1 CD2_2 (which branch), with distinct integer values
    from_header      explicit beam or not x all 8 masks of BMAJ BMIN BPA (which source), values are copies; non-positive axes raise
    fix_aips_header  masks of BMAJ BMIN BPA x histories (no HISTORY card, empty, non-AIPS lines, AIPS lines without / with BMAJ=)
    psf map          real psf file (3 planes), positions all over and beyond the map: the cell that get_psf_sky2sky reads
  real-valued parts (per-case lemmas closed by `interval`): get_pixinfo on random headers, sky_sep on real WCS, beam areas.
  oracles (independent of the model, from the statements of Props/C16x.v) give the concrete failing input when something differs.
"""
import json
import logging
import math
import os
import time
import warnings
from fractions import Fraction

import numpy as np

import vlib
from vlib import rlit

EXTRA_TARGETS = ['Props/C16x.vo', 'Refuted/C16x_psf_map_cell.vo']
GEN_EXTRA = ['WcsBeam']
TRUSTED_EXTRA = [
    'translator point WcsBeam (tools/points_c16x.py): sky_sep as a whole function; if / elif chain, area and pixscale expressions of '
    'get_pixinfo; slots, defaults and Beam(..) argument order of get_beam, the assertions of Beam.__init__; tests, word indices and '
    'assigned keys of fix_aips_header; beam selection / refpix keys of from_header, absence of any call of fix_aips_header in the '
    'class; psf_sky2pix and the clip / int / index expression of the psf-map lookup; fall-backs without psf map; fails closed',
    'Model/WcsBeam.v: a header is (present keys, values); a HISTORY line is (starts with the prefix, contains the marker, '
    'float(words[k])); the psf wcs answer is an input of the lookup (a binary64 value read as an exact fraction)',
]
ASSUMPTIONS_EXTRA = [
    'C16x: header values are finite floats; HISTORY lines that start with AIPS and contain BMAJ have the AIPS CLEAN layout '
    '(words 3, 5, 7 parse as floats); the psf map has 3 dimensions and the psf wcs answers with finite pixel coordinates',
    'C16x exact comparisons: values are copied (beam, pixscale) or products of small integers (pixel area of the exhaustive masks); '
    'random-valued pixel areas, sky_sep and beam areas are compared through interval-certified lemmas (2^-40 relative resp. 2^-30 relative)',
    'C16x observation (outside the statement of C16): the psf-map lookup reads cell (r + 1, c + 1) at the centre of cell (r, c) (Refuted/C16x_psf_map_cell.v); the '
    'model follows the code, the finding is replayed on the real code on every run',
]

IMPORTS = ("From Coq Require Import Reals ZArith List Bool.\nFrom Aegean Require Import Gen.WcsBeam Model.WcsBeam.\n"
           "Import ListNotations.\nOpen Scope Z_scope.\n")
CERT_HEADER = ("From Coq Require Import Reals ZArith List Bool.\nFrom Interval Require Import Tactic.\n"
               "From Aegean Require Import Lib.RBase Gen.Sphere Lib.Sphere Gen.WcsHelper Gen.WcsBeam Model.WcsHelper Model.WcsBeam "
               "Proofs.WcsHelperProofs Proofs.WcsCert Proofs.WcsBeamProofs.\nOpen Scope R_scope.")
IV = "interval with (i_prec 120)"
KEYS = ['CDELT1', 'CDELT2', 'CD1_1', 'CD1_2', 'CD2_1', 'CD2_2', 'BMAJ', 'BMIN', 'BPA', 'CRPIX1', 'CRPIX2']
PKEYS = KEYS[:6]
BKEYS = ['BMAJ', 'BMIN', 'BPA']
LEAF = ['leaf_pixinfo_cdelt', 'leaf_pixinfo_cd4', 'leaf_pixinfo_cd2', 'leaf_pixinfo_else']


def wh():
    from AegeanTools import wcs_helpers
    return wcs_helpers


def c16():
    from harness import c16 as m
    return m


def mask_fun(present):
    return '(fun k => match k with ' + ' | '.join(f"{k} => {'true' if k in present else 'false'}" for k in KEYS) + ' end)'


class quiet:
    def __enter__(self):
        logging.disable(logging.CRITICAL)
        self.w = warnings.catch_warnings()
        self.w.__enter__()
        warnings.simplefilter('ignore')

    def __exit__(self, *a):
        self.w.__exit__(*a)
        logging.disable(logging.NOTSET)


# ------------------------------------------------------------------------------------------ get_pixinfo
def pixinfo_oracle(vals):
    """Props/C16x.v: CDELT pair first, then the full CD matrix (|det|, diagonal), then the CD diagonal, else zeros"""
    has = lambda *ks: all(k in vals for k in ks)  # noqa: E731
    if has('CDELT1', 'CDELT2'):
        return 0, abs(Fraction(vals['CDELT1']) * Fraction(vals['CDELT2'])), (vals['CDELT1'], vals['CDELT2'])
    if has('CD1_1', 'CD1_2', 'CD2_1', 'CD2_2'):
        det = Fraction(vals['CD1_1']) * Fraction(vals['CD2_2']) - Fraction(vals['CD1_2']) * Fraction(vals['CD2_1'])
        return 1, abs(det), (vals['CD1_1'], vals['CD2_2'])
    if has('CD1_1', 'CD2_2'):
        return 2, abs(Fraction(vals['CD1_1']) * Fraction(vals['CD2_2'])), (vals['CD1_1'], vals['CD2_2'])
    return 3, Fraction(0), (0, 0)


def run_pixinfo(vals):
    from astropy.io import fits
    h = fits.Header()
    for k, v in vals.items():
        h[k] = v
    with quiet():
        area, scale = wh().get_pixinfo(h)
    return float(area), (float(scale[0]), float(scale[1]))


def pixinfo_problem(vals, tol=2.0 ** -40):
    try:
        area, scale = run_pixinfo(vals)
    except Exception as e:  # noqa
        return f'get_pixinfo raised {type(e).__name__}: {e}'
    k, want_a, want_s = pixinfo_oracle(vals)
    if abs(Fraction(area) - want_a) > Fraction(tol) * want_a or scale != (float(want_s[0]), float(want_s[1])):
        return (f'get_pixinfo({vals}) = ({area!r}, {scale}); expected branch {k}: area {float(want_a)!r} '
                f'(|CDELT1 CDELT2| resp. |det CD|), pixscale {want_s}')
    return None


INT_VALS = {'CDELT1': -2.0, 'CDELT2': 3.0, 'CD1_1': -5.0, 'CD1_2': 7.0, 'CD2_1': 11.0, 'CD2_2': 13.0}
BRANCH_OF = {(6.0, (-2.0, 3.0)): 0, (142.0, (-5.0, 13.0)): 1, (65.0, (-5.0, 13.0)): 2, (0.0, (0.0, 0.0)): 3}


def rand_pixvals(rng, keys):
    sc = rng.choice([1.0, 10.0, 60.0]) / 3600 * rng.uniform(0.5, 2)
    t = math.radians(rng.choice([0.0, 0.0, 30.0, -75.0, 90.0, 179.0]) if rng.random() < 0.6 else rng.uniform(-180, 180))
    full = {'CDELT1': -sc * rng.uniform(0.8, 1.2), 'CDELT2': sc, 'CD1_1': -sc * math.cos(t), 'CD1_2': sc * math.sin(t),
            'CD2_1': sc * math.sin(t) * rng.choice([1.0, 1.0, 0.7]), 'CD2_2': sc * math.cos(t)}
    return {k: full[k] for k in keys}


def goal_pixinfo(vals, area, scale):
    ks = list(vals)
    k, want, _ = pixinfo_oracle(vals)
    tol = float(want) * 2.0 ** -40 + 2.0 ** -1000
    hyps = ' -> '.join(f'v {kk} = {rlit(vals[kk])}' for kk in ks)
    names = ' '.join(f'H{i}' for i in range(len(ks)))
    rw = ', '.join(f'?H{i}' for i in range(len(ks)))
    return (f"Goal forall v : hkey -> R, {hyps + ' -> ' if ks else ''}let r := m_pixinfo (mkH {mask_fun(ks)} v) in "
            f"Rabs (fst r - {rlit(area)}) <= {rlit(tol)} /\\ snd r = ({rlit(scale[0])}, {rlit(scale[1])}). "
            f"Proof. intros v {names}. cbv zeta. rewrite (m_pixinfo_at _ {k}%nat) by (vm_compute; reflexivity). cbn [val]. "
            f"destruct ({LEAF[k]} v) as [-> ->]. cbn [fst snd]. " + (f"rewrite {rw}. " if ks else '') +
            f"split; [{IV} | reflexivity]. Qed.")


# ------------------------------------------------------------------------------------------ get_beam / from_header
def base_header():
    from fixtures import make_header
    return make_header((64, 64), proj='SIN', crval=(150.0, -30.0), cdelt=10.0 / 3600, crpix=(33.0, 32.5), beam=None)


def beam_case(arg, vals):
    """returns ('arg' | 'header' | 'raise' | other text, (a, b, pa) or None, get_beam result is None)"""
    w = wh()
    h = base_header()
    for k, v in vals.items():
        h[k] = v
    b = w.Beam(0.02, 0.01, 5.0) if arg else None
    with quiet():
        try:
            gb = w.get_beam(h)
            gnone = gb is None
        except AssertionError:
            gnone = False
        try:
            helper = w.WCSHelper.from_header(h, beam=b)
        except AssertionError:
            return 'raise', None, gnone
        except Exception as e:  # noqa
            return f'{type(e).__name__}: {e}', None, gnone
    got = (float(helper.beam.a), float(helper.beam.b), float(helper.beam.pa))
    extra = None
    if tuple(float(x) for x in helper.refpix) != (float(h['CRPIX1']), float(h['CRPIX2'])):
        extra = f'refpix {helper.refpix} is not (CRPIX1, CRPIX2)'
    if tuple(float(x) for x in helper.pixscale) != (float(h['CDELT1']), float(h['CDELT2'])):
        extra = f'pixscale {helper.pixscale} is not that of get_pixinfo'
    if extra:
        return extra, got, gnone
    return ('arg' if helper.beam is b else 'header'), got, gnone


def beam_oracle(arg, vals):
    if arg:
        return 'arg', (0.02, 0.01, 5.0), None
    if 'BMAJ' in vals and 'BMIN' in vals:
        if vals['BMAJ'] > 0 and vals['BMIN'] > 0:
            return 'header', (vals['BMAJ'], vals['BMIN'], vals.get('BPA', 0.0)), False
        return 'raise', None, False
    return 'raise', None, True


def beam_problem(arg, vals):
    kind, got, gnone = beam_case(arg, vals)
    wk, wv, wn = beam_oracle(arg, vals)
    if kind != wk or (wv is not None and got != tuple(float(x) for x in wv)):
        return (f'from_header(header with {vals}, beam={"Beam(0.02, 0.01, 5.0)" if arg else None}): {kind} {got}; expected {wk} {wv} '
                '(explicit beam, else BMAJ / BMIN / BPA-or-0 of the header, else AssertionError)')
    if wn is not None and gnone != wn:
        return f'get_beam(header with {vals}) is None: {gnone}; expected {wn} (None exactly when BMAJ or BMIN is missing)'
    return None


SRC = {'arg': 0, 'header': 1, 'raise': 2}


# ------------------------------------------------------------------------------------------ fix_aips_header
def aips_line(vals3):
    return 'AIPS   CLEAN BMAJ=%12.4E BMIN=%12.4E BPA=%7.2f' % tuple(vals3)


LINE_KINDS = {
    'other': (False, True, lambda i: f'CASA imager run {i} BMAJ= 1.0 BMIN= 2.0 BPA= 3.0'),   # contains the marker, wrong prefix
    'aips-plain': (True, False, lambda i: f'AIPS   IMNAME= TEST{i} RESTFREQ = 1.4E9'),
    'plain': (False, False, lambda i: f'made by the verification harness {i}'),
}


def run_aips(present, hist):
    """hist: None or list of ('clean', (a, b, pa)) / (kind, i).  Returns (pick, text)"""
    from astropy.io import fits
    h = fits.Header()
    h['SIMPLE'] = True
    old = {'BMAJ': 0.5, 'BMIN': 0.25, 'BPA': 45.0}
    for k in present:
        h[k] = old[k]
    lines = []
    for item in (hist or []):
        lines.append(aips_line(item[1]) if item[0] == 'clean' else LINE_KINDS[item[0]][2](item[1]))
    for ln in lines:
        h['HISTORY'] = ln
    n0 = len(lines)
    try:
        with quiet():
            out = wh().fix_aips_header(h)
    except KeyError as e:
        return -2, f'KeyError {e}'
    except Exception as e:  # noqa
        return None, f'{type(e).__name__}: {e}'
    if out is not h:
        return None, 'a different header object is returned'
    nh = len(list(out['HISTORY'])) if 'HISTORY' in out else 0
    now = {k: (float(out[k]) if k in out else None) for k in BKEYS}
    if nh == n0 and all(now[k] == (old[k] if k in present else None) for k in BKEYS):
        return -1, 'unchanged'
    if nh == n0 + 1:
        for i, item in enumerate(hist or []):
            if item[0] == 'clean':
                want = [float(x) for x in aips_line(item[1]).split()[3:8:2]]
                if [now[k] for k in BKEYS] == want:
                    return i, f'line {i}'
    return None, f'header afterwards: {now}, {nh} HISTORY cards'


def aips_oracle(present, hist):
    if set(present) >= set(BKEYS):
        return -1
    if not hist:            # no line = no HISTORY card in the header
        return -2
    for i, item in enumerate(hist):
        if item[0] == 'clean':
            return i
    return -1


def flags_of(hist):
    if not hist:            # a FITS header without lines has no HISTORY card
        return 'None'
    fl = []
    for item in hist:
        p, m = (True, True) if item[0] == 'clean' else LINE_KINDS[item[0]][:2]
        # the flags are what the two string tests of the code answer on the generated text
        fl.append(f"({'true' if p else 'false'}, {'true' if m else 'false'})")
    return 'Some [' + '; '.join(fl) + ']'


def check_line_flags():
    """the (prefix, marker) flags handed to the model are what str.startswith('AIPS') / 'BMAJ' in line answer"""
    for kind, (p, m, mk) in LINE_KINDS.items():
        t = mk(3)
        if (t.startswith('AIPS'), 'BMAJ' in t) != (p, m):
            return False
    t = aips_line((0.0125, 0.01, 12.5))
    return t.startswith('AIPS') and 'BMAJ' in t


def gen_hist(rng):
    r = rng.random()
    if r < 0.15:
        return None
    if r < 0.25:
        return []
    out = []
    for i in range(rng.randint(1, 5)):
        kind = rng.choice(['other', 'aips-plain', 'plain', 'clean', 'clean'])
        if kind == 'clean':
            out.append(('clean', (round(rng.uniform(0.001, 0.05), 6) + i * 1e-3, round(rng.uniform(0.001, 0.05), 6), round(rng.uniform(-90, 90), 2))))
        else:
            out.append((kind, i))
    return out


def aips_cases(rng, n):
    cases = []
    for m in range(8):
        present = [k for j, k in enumerate(BKEYS) if m >> j & 1]
        for hist in (None, [], [('plain', 0)], [('clean', (0.0125, 0.01, 12.5))],
                     [('other', 0), ('aips-plain', 1), ('clean', (0.02, 0.015, -30.0)), ('clean', (0.03, 0.01, 10.0))]):
            cases.append((present, hist))
    for _ in range(n):
        cases.append(([k for k in BKEYS if rng.random() < 0.5], gen_hist(rng)))
    return cases


def aips_problem(present, hist):
    got, text = run_aips(present, hist)
    want = aips_oracle(present, hist)
    if got != want:
        return (f'fix_aips_header(header with {present}, HISTORY {hist}): {text}; expected '
                f'{ {-2: "KeyError (no HISTORY card; the recorded behaviour)", -1: "unchanged"}.get(want, f"the beam of line {want}") }')
    return None


# ------------------------------------------------------------------------------------------ psf map
def psf_fixture(work, rows=5, cols=7, nan_cell=None):
    from astropy.io import fits
    from fixtures import make_header
    os.makedirs(work, exist_ok=True)
    hdr = make_header((100, 100), proj='SIN', crval=(10.0, 0.0), cdelt=0.01, crpix=(50.5, 50.5), beam=(0.05, 0.04, 10.0))
    ph = make_header((rows, cols), proj='SIN', crval=(10.0, 0.0), cdelt=0.2, crpix=((cols + 1) / 2.0, (rows + 1) / 2.0), naxis=3, beam=None)
    data = np.zeros((4, rows, cols))
    for r in range(rows):
        for c in range(cols):
            data[0, r, c] = 0.05 + 0.001 * r
            data[1, r, c] = 0.03 + 0.001 * c
            data[2, r, c] = 10 * r + c
            data[3, r, c] = -1.0
    if nan_cell:
        data[1, nan_cell[0], nan_cell[1]] = np.nan
    path = os.path.join(work, f'psf_{rows}x{cols}.fits')
    fits.PrimaryHDU(data=data, header=ph).writeto(path, overwrite=True)
    with quiet():
        h = wh().WCSHelper.from_header(hdr, psf_file=path)
    return h, data, (rows, cols)


def psf_probe(h, data, shape, ra, dec):
    """(FITS pixel the psf wcs returns, cell read by get_psf_sky2sky or text)"""
    rec = []
    w = h.psf_wcs
    orig = w.all_world2pix

    def spy(*a, **k):
        out = orig(*a, **k)
        rec.append((a[1], [float(v) for v in np.asarray(out).ravel()]))
        return out
    w.all_world2pix = spy
    try:
        with quiet():
            got = h.get_psf_sky2sky(ra, dec)
    finally:
        w.all_world2pix = orig
    got = [float(v) for v in np.asarray(got).ravel()]
    if len(rec) != 1 or rec[0][0] not in (0, 1) or len(rec[0][1]) != 2:
        return None, f'psf wcs calls {rec}'
    o, (p0, p1) = rec[0]
    f1, f2 = p0 + (1 - o), p1 + (1 - o)
    if len(got) != 3:
        return (f1, f2), f'{len(got)} values'
    code = got[2]
    r, c = int(code) // 10, int(code) % 10
    if not (0 <= r < shape[0] and 0 <= c < shape[1]) or not np.array_equal(np.asarray(data[:3, r, c], dtype=float), np.asarray(got), equal_nan=True):
        return (f1, f2), f'values {got} are not a cell of the map'
    return (f1, f2), (r, c)


def cell_oracle(shape, f1, f2):
    """Props/C16x.v C16x_psf_cell_floor (+ clipping): integer part of the 1-based FITS coordinate as 0-based index"""
    return (int(min(max(f2, 0), shape[0] - 1)), int(min(max(f1, 0), shape[1] - 1)))


def frac3(f1, f2):
    a, b = Fraction(f1), Fraction(f2)
    den = max(a.denominator, b.denominator)      # powers of two
    return int(a * den), int(b * den), den


def psf_positions(rng, h, shape, n):
    rows, cols = shape
    pts = []
    for r in range(rows):
        for c in range(cols):
            pts.append((c + 1.25, r + 1.25))
    for _ in range(n):
        pts.append((rng.uniform(-1.5, cols + 2.5), rng.uniform(-1.5, rows + 2.5)))
    pts += [(0.75, 0.75), (cols + 0.4, rows + 0.4), (1.0, 1.0), (cols - 0.75, 1.5)]
    out = []
    w = h.psf_wcs
    for f1, f2 in pts:
        ra, dec = (float(v) for v in w.all_pix2world([[f1, f2]], 1)[0])
        out.append((ra, dec))
    return out


def psf_problem(h, data, shape, ra, dec):
    try:
        return _psf_problem(h, data, shape, ra, dec)
    except Exception as e:  # noqa
        return f'psf lookups at ({ra!r}, {dec!r}) on the {shape} psf map raised {type(e).__name__}: {e}'


def _psf_problem(h, data, shape, ra, dec):
    f, cell = psf_probe(h, data, shape, ra, dec)
    if f is None or not isinstance(cell, tuple):
        return f'get_psf_sky2sky({ra!r}, {dec!r}) with a psf map: {cell}'
    want = cell_oracle(shape, *f)
    if cell != want:
        return (f'get_psf_sky2sky({ra!r}, {dec!r}): psf wcs pixel (FITS, 1-based) {f}; the lookup read cell {cell} of the {shape} map, '
                f'expected {want} (integer part of the clipped coordinate)')
    with quiet():
        bm = h.get_skybeam(ra, dec)
        vals = [float(v) for v in data[:3, cell[0], cell[1]]]
        if not all(math.isfinite(v) for v in vals):
            if bm is not None:
                return f'get_skybeam({ra!r}, {dec!r}) is not None although the psf map holds {vals} there'
            return None
        if bm is None or [float(bm.a), float(bm.b), float(bm.pa)] != vals:
            return f'get_skybeam({ra!r}, {dec!r}) is not the Beam of the psf map cell {vals}'
        sp = [float(v) for v in h.get_psf_sky2pix(ra, dec)]
        ref = [float(v) for v in h.sky2pix_ellipse((ra, dec), *vals)][2:]
        x, y = (float(v) for v in h.sky2pix((ra, dec)))
        if sp != ref:
            return f'get_psf_sky2pix({ra!r}, {dec!r}) = {sp} is not sky2pix_ellipse of the map cell {ref}'
        area = float(h.get_beamarea_deg2(ra, dec))
        if abs(area - math.pi * vals[0] * vals[1]) > 1e-12 * area:
            return f'get_beamarea_deg2({ra!r}, {dec!r}) = {area!r} is not pi a b of the map cell'
    return None


PIX2PIX_PIXELS = [(10.0, 80.0), (80.0, 10.0), (30.0, 55.0), (99.0, 2.0), (50.0, 50.0), (2.5, 97.25)]


def pix2pix_problem(h, x, y):
    """with a psf map: the psf in pixel coordinates at pixel (x, y) is the sky psf AT THE SKY POSITION OF THAT PIXEL brought to the
    pixel grid: get_psf_pix2pix(x, y) = get_psf_sky2pix(*pix2sky((x, y)))"""
    try:
        with quiet():
            got = [float(v) for v in h.get_psf_pix2pix(x, y)]
            ra, dec = h.pix2sky((x, y))
            exp = [float(v) for v in h.get_psf_sky2pix(ra, dec)]
    except Exception as e:  # noqa
        return f'get_psf_pix2pix({x}, {y}) raised {type(e).__name__}: {e}'
    if not np.allclose(got, exp, rtol=1e-12, atol=0, equal_nan=True):
        return (f'get_psf_pix2pix({x}, {y}) = {got} but the psf at the sky position of that pixel ({ra!r}, {dec!r}) in pixel '
                f'coordinates is {exp}')
    return None


def psf_finding(ctx, h, data, shape):
    """replay of Refuted/C16x_psf_map_cell.v: at a position well inside cell (2, 3) the lookup reads cell (3, 4)"""
    r, c = 2, 3
    ra, dec = (float(v) for v in h.psf_wcs.all_pix2world([[c + 1.25, r + 1.25]], 1)[0])
    f, cell = psf_probe(h, data, shape, ra, dec)
    ok = isinstance(cell, tuple) and cell == (r + 1, c + 1)
    ctx.oblige('observed behaviour of the psf-map lookup unchanged (model follows the code): a position inside cell (2, 3) of the psf map (FITS pixel (4.25, 3.25)) reads cell (3, 4) - '
               'Refuted/C16x_psf_map_cell.v', ok, f'psf pixel {f}, cell read {cell}')
    text = None
    for kind, t in vlib.known_findings('C16'):
        if kind == 'finding' and 'psf map' in t:
            text = t
    if text:
        ctx.known_lines.append(text)
    else:
        ctx.notes.append('observation outside the 20 properties (no clause of C16 speaks about psf maps; DESIGN section 11): WCSHelper.get_psf_sky2sky with a psf map uses the 1-based FITS pixel of '
                         'psf_sky2pix as a 0-based array index (int(np.clip(x, 0, n - 1))): the psf of the cell one row up and one column '
                         f'right is returned; e.g. 5 x 7 map with 0.2 deg cells, position ({ra!r}, {dec!r}) inside cell (2, 3) reads cell {cell}')


# ------------------------------------------------------------------------------------------ sky_sep
def sep_case(rng, k):
    m = c16()
    hdr, desc = m.rand_header(rng, k)
    with quiet():
        h = wh().WCSHelper.from_header(hdr)
    return desc, h


def sep_probe(desc, h, p, q):
    m = c16()
    rec = m.Recorder(h)
    try:
        with quiet():
            out = float(h.sky_sep(p, q))
    finally:
        calls = rec.take()
        rec.close()
    return out, m.fits_calls(calls, 'P', 2)


def sep_problem(desc, h, p, q):
    m = c16()
    try:
        out, fc = sep_probe(desc, h, p, q)
    except Exception as e:  # noqa
        return f'sky_sep({p}, {q}) raised {type(e).__name__}: {e}'
    s1 = m.fits_pix2sky_ref(desc, p[1], p[0])
    s2 = m.fits_pix2sky_ref(desc, q[1], q[0])
    want = m.ref_sep(s1[0], s1[1], s2[0], s2[1])
    if not abs(out - want) <= 1e-9 + 1e-9 * want:
        return (f'sky_sep({p}, {q}) = {out!r}; the great-circle distance of the FITS positions of the two 1-based (row, column) pixels '
                f'is {want!r}')
    with quiet():
        back = float(h.sky_sep(q, p))
    if abs(back - out) > 1e-12 + 1e-9 * out:
        return f'sky_sep is not symmetric: {out!r} vs {back!r} for {p}, {q}'
    return None


def goal_sky_sep(p, q, fc, out):
    (a0, o0), (a1, o1) = fc
    m = c16()
    tol = abs(out) * 2.0 ** -30 + 2.0 ** -44
    lo, hi = max(out - tol, 0.0), min(out + tol, 180.0)
    return (f"Goal forall P : pt -> pt, P {m.pt_lit(*a0)} = {m.pt_lit(*o0)} -> P {m.pt_lit(*a1)} = {m.pt_lit(*o1)} -> "
            f"{rlit(lo)} <= m_sky_sep P {m.pt_lit(*p)} {m.pt_lit(*q)} <= {rlit(hi)}. "
            f"Proof. intros P H0 H1. rewrite m_sky_sep_eq, H0, H1. cbn [fst snd]. apply gcd_between; "
            f"[split; {IV} | split; {IV} | unfold hav, rad; split; {IV}]. Qed.")


def rand_pair(rng, n):
    m = c16()
    p = m.rand_pixel(rng, n)
    r = rng.random()
    if r < 0.4:
        d = rng.uniform(1, 20)
        t = rng.uniform(0, 2 * math.pi)
        q = (p[0] + d * math.cos(t), p[1] + d * math.sin(t))
    elif r < 0.5:
        q = (p[0], p[1] + 1.0)
    else:
        q = m.rand_pixel(rng, n)
    if q == p:
        q = (p[0] + 1.0, p[1])
    return (float(p[0]), float(p[1])), (float(q[0]), float(q[1]))


# ------------------------------------------------------------------------------------------ entry points
def structured_problems(ctx, rng, budget, work):
    """oracles on a structured input stream; yields failing-input dicts"""
    t0 = time.time()
    for m in range(64):
        vals = {k: INT_VALS[k] for j, k in enumerate(PKEYS) if m >> j & 1}
        p = pixinfo_problem(vals, tol=0)
        if p:
            yield {'kind': 'pixinfo', 'values': vals, 'what': p}
    for arg in (False, True):
        for m in range(8):
            for bad in (False, True):
                vals = {k: v for j, (k, v) in enumerate((('BMAJ', 0.03), ('BMIN', 0.02), ('BPA', -12.5))) if m >> j & 1}
                if bad and 'BMIN' in vals:
                    vals['BMIN'] = 0.0
                p = beam_problem(arg, vals)
                if p:
                    yield {'kind': 'beam', 'arg': arg, 'values': vals, 'what': p}
    for present, hist in aips_cases(rng, 20):
        p = aips_problem(present, hist)
        if p:
            yield {'kind': 'aips', 'present': present, 'history': hist, 'what': p}
    h, data, shape = psf_fixture(work)
    for ra, dec in psf_positions(rng, h, shape, 20):
        p = psf_problem(h, data, shape, ra, dec)
        if p:
            yield {'kind': 'psfmap', 'pos': [ra, dec], 'what': p}
    for (x, y) in PIX2PIX_PIXELS:
        p = pix2pix_problem(h, x, y)
        if p:
            yield {'kind': 'psfpix', 'pixel': [x, y], 'what': p}
    k = 0
    while time.time() - t0 < budget:
        desc, hh = sep_case(rng, k)
        k += 1
        for _ in range(10):
            pp, q = rand_pair(rng, desc['naxis'])
            p = sep_problem(desc, hh, pp, q)
            if p:
                yield {'kind': 'sky_sep', 'header': desc, 'pixels': [list(pp), list(q)], 'what': p}
        vals = rand_pixvals(rng, [kk for kk in PKEYS if rng.random() < 0.6])
        p = pixinfo_problem(vals)
        if p:
            yield {'kind': 'pixinfo', 'values': vals, 'what': p}


def run_extra(ctx, model_ok=True):
    t0 = time.time()
    rng = ctx.rng
    quick = ctx.tier == 'quick'
    try:
        with open(os.path.join(vlib.COQ, 'Gen', 'FAILED.json')) as fh:
            failed = json.load(fh)
    except Exception as e:  # noqa
        failed = {'*': str(e)}
    err = failed.get('WcsBeam') or failed.get('*')
    ctx.oblige(f'translate: coq/Gen/WcsBeam.v regenerates from {vlib.REPO}', not err, err)
    names = vlib.theorems_of('C16x')
    if model_ok:
        for n in names:
            ctx.oblige(f'theorem {n}', True)
        ax, out = vlib.print_assumptions(ctx, 'C16x', names)
        if ax is None:
            ctx.oblige('Print Assumptions (C16x) runs', False, out)
        else:
            for n in names:
                badax = vlib.axioms_ok(ax.get(n, ['<missing>']))
                ctx.axioms[n] = ax.get(n, ['<missing>'])
                ctx.oblige(f'axioms of {n} within the allow-list', not badax, badax)
    ctx.rule += (' EXTENSION C16x: get_pixinfo on all 64 presence masks of the CDELT / CD cards and on random headers (rotated, skewed, '
                 'non-square); from_header with / without explicit beam on all 8 masks of BMAJ BMIN BPA and non-positive axes; '
                 'fix_aips_header on masks x histories; psf-map lookups on a 5 x 7 map incl. positions outside; sky_sep on pixel pairs '
                 '(1 pixel .. the whole image) of random real WCS.')
    work = os.path.join(ctx.work, 'c16x')
    exprs, wants, metas = [], [], []
    goals, gmetas = [], []
    oracle_bad = {k: None for k in ('pixinfo', 'beam', 'aips', 'psfmap', 'sky_sep', 'files')}

    def oracle_fail(kind, fi):
        if oracle_bad[kind] is None:
            oracle_bad[kind] = fi['what']
            ctx.mismatch(f'oracle ({kind})', {k: v for k, v in fi.items() if k != 'what'}, impl=fi['what'], is_violation=fi)

    # ---- get_pixinfo: all masks (exact), random headers (certified)
    for m in range(64):
        vals = {k: INT_VALS[k] for j, k in enumerate(PKEYS) if m >> j & 1}
        p = pixinfo_problem(vals, tol=0)
        ctx.case(key=('pixinfo-mask', m), bucket='get_pixinfo presence mask', sample={'get_pixinfo': vals} if m == 45 else None)
        if p:
            oracle_fail('pixinfo', {'kind': 'pixinfo', 'values': vals, 'what': p})
            continue
        got = run_pixinfo(vals)
        exprs.append(f'Z.of_nat (pixinfo_branch {mask_fun(list(vals))})')
        wants.append(BRANCH_OF.get(got))
        metas.append(('get_pixinfo branch', {'kind': 'pixinfo', 'values': vals}, got))
    npix = 8 if quick else 40
    for i in range(npix):
        keys = [[k for k in PKEYS if rng.random() < 0.6], PKEYS[2:], PKEYS[:2], ['CD1_1', 'CD2_2']][i % 4 if i % 8 < 4 else 0]
        vals = rand_pixvals(rng, keys)
        p = pixinfo_problem(vals)
        ctx.case(key=('pixinfo', i), bucket='get_pixinfo random header')
        if p:
            oracle_fail('pixinfo', {'kind': 'pixinfo', 'values': vals, 'what': p})
            continue
        area, scale = run_pixinfo(vals)
        goals.append(goal_pixinfo(vals, area, scale))
        gmetas.append(('get_pixinfo', {'kind': 'pixinfo', 'values': vals}, (area, scale)))
    # ---- from_header / get_beam
    for arg in (False, True):
        for m in range(8):
            for bad in ((False, True) if not arg else (False,)):
                vals = {k: v for j, (k, v) in enumerate((('BMAJ', 0.03), ('BMIN', 0.02), ('BPA', -12.5))) if m >> j & 1}
                if bad:
                    if 'BMAJ' not in vals:
                        continue
                    vals['BMAJ'] = rng.choice([0.0, -0.01])
                p = beam_problem(arg, vals)
                ctx.case(key=('beam', arg, m, bad), bucket='from_header beam source')
                if p:
                    oracle_fail('beam', {'kind': 'beam', 'arg': arg, 'values': vals, 'what': p})
                    continue
                if not bad:
                    kind, _, _ = beam_case(arg, vals)
                    exprs.append(f"m_beam_src {'true' if arg else 'false'} {mask_fun(list(vals))}")
                    wants.append(SRC.get(kind))
                    metas.append(('from_header beam source', {'kind': 'beam', 'arg': arg, 'values': vals}, kind))
    # from_file = from_header on the header of the file
    try:
        from astropy.io import fits
        os.makedirs(work, exist_ok=True)
        hdr = base_header()
        hdr['BMAJ'], hdr['BMIN'] = 0.03, 0.02
        path = os.path.join(work, 'img.fits')
        fits.PrimaryHDU(data=np.zeros((64, 64), dtype=np.float32), header=hdr).writeto(path, overwrite=True)
        with quiet():
            hf = wh().WCSHelper.from_file(path)
            hb = wh().WCSHelper.from_file(path, beam=wh().Beam(0.5, 0.25, 1.0))
        okf = (float(hf.beam.a), float(hf.beam.b), float(hf.beam.pa)) == (0.03, 0.02, 0.0) and \
            (hb.beam.a, hb.beam.b, hb.beam.pa) == (0.5, 0.25, 1.0) and tuple(hf.refpix) == (33.0, 32.5)
        what = None if okf else f'from_file: beam {hf.beam}, with explicit beam {hb.beam}, refpix {hf.refpix}'
    except Exception as e:  # noqa
        okf, what = False, f'from_file raised {type(e).__name__}: {e}'
    ctx.case(key=('from_file', 0), bucket='from_file')
    if not okf:
        oracle_fail('files', {'kind': 'from_file', 'what': what})
    # ---- fix_aips_header
    flags_ok = check_line_flags()
    for i, (present, hist) in enumerate(aips_cases(rng, 30 if quick else 300)):
        p = aips_problem(present, hist)
        ctx.case(key=('aips', i), bucket='fix_aips_header')
        if p:
            oracle_fail('aips', {'kind': 'aips', 'present': present, 'history': hist, 'what': p})
            continue
        got, _ = run_aips(present, hist)
        exprs.append(f'm_fix_pick {mask_fun(present)} ({flags_of(hist)})')
        wants.append(got)
        metas.append(('fix_aips_header', {'kind': 'aips', 'present': present, 'history': hist}, got))
    # ---- psf map
    try:
        h, data, shape = psf_fixture(work)
        hn, datan, _ = psf_fixture(os.path.join(work, 'nan'), nan_cell=(3, 4))
    except Exception as e:  # noqa
        h = None
        oracle_fail('psfmap', {'kind': 'psfmap', 'pos': None, 'what': f'WCSHelper with a psf map cannot be built: {type(e).__name__}: {e}'})
    npsf = 0
    if h is not None:
        for (ra, dec) in psf_positions(rng, h, shape, 20 if quick else 200):
            p = psf_problem(h, data, shape, ra, dec)
            ctx.case(key=('psf', ra, dec), bucket='psf map lookup')
            if p:
                oracle_fail('psfmap', {'kind': 'psfmap', 'pos': [ra, dec], 'what': p})
                continue
            try:
                f, cell = psf_probe(h, data, shape, ra, dec)
            except Exception:  # noqa
                continue
            a, b, den = frac3(*f)
            exprs.append(f"m_psf_cell (fun k => if k =? 1 then {shape[0]} else if k =? 2 then {shape[1]} else {int(data.shape[0])}) "
                         f"{vlib.zlit(a)} {vlib.zlit(b)} {den}")
            wants.append(tuple(cell))
            metas.append(('psf map cell', {'kind': 'psfmap', 'pos': [ra, dec]}, cell))
            npsf += 1
        # a NaN cell gives no beam
        ra, dec = (float(v) for v in hn.psf_wcs.all_pix2world([[4.25, 3.25]], 1)[0])     # reads cell (3, 4)
        p = psf_problem(hn, datan, shape, ra, dec)
        ctx.case(key=('psf-nan', 0), bucket='psf map lookup')
        if p:
            oracle_fail('psfmap', {'kind': 'psfmap-nan', 'pos': [ra, dec], 'what': p})
        psf_finding(ctx, h, data, shape)
        for (x, y) in PIX2PIX_PIXELS:
            ctx.case(key=('psf-pix2pix', x, y), bucket='psf map lookup')
            p = pix2pix_problem(h, x, y)
            if p:
                oracle_fail('psfmap', {'kind': 'psfpix', 'pixel': [x, y], 'what': p})
    # ---- sky_sep
    nh = 4 if quick else 20
    nsep = 0
    for k in range(nh):
        desc, hh = sep_case(rng, k)
        for j in range(4 if quick else 8):
            pp, q = rand_pair(rng, desc['naxis'])
            p = sep_problem(desc, hh, pp, q)
            ctx.case(key=('sep', k, j), bucket='sky_sep ' + desc['proj'])
            if p:
                oracle_fail('sky_sep', {'kind': 'sky_sep', 'header': desc, 'pixels': [list(pp), list(q)], 'what': p})
                continue
            out, fc = sep_probe(desc, hh, pp, q)
            if fc is None:
                ctx.mismatch('sky_sep: the wcslib calls are not two single-point all_pix2world calls with origin 0/1',
                             {'header': desc, 'pixels': [pp, q]})
                continue
            if j < (2 if quick else 4):
                goals.append(goal_sky_sep(pp, q, fc, out))
                gmetas.append(('sky_sep', {'kind': 'sky_sep', 'header': desc, 'pixels': [list(pp), list(q)]}, out))
            nsep += 1
    ctx.hyp['astropy.wcs all_pix2world agrees with the independent FITS zenithal formulas at the sky_sep end points (1e-9 deg, via the '
            'great-circle oracle)'] = 2 * nsep
    # beam areas (certified): pi a b
    for i in range(2 if quick else 8):
        a, b = rng.uniform(1e-3, 0.1), rng.uniform(1e-3, 0.1)
        v = a * b * np.pi
        goals.append(f"Goal Rabs (beamarea_deg2 {rlit(a)} {rlit(b)} - {rlit(v)}) <= {rlit(v * 2.0 ** -40)} /\\ "
                     f"Rabs (beamarea_pix {rlit(a)} {rlit(b)} - {rlit(v)}) <= {rlit(v * 2.0 ** -40)}. "
                     f"Proof. unfold beamarea_deg2, beamarea_pix. split; {IV}. Qed.")
        gmetas.append(('beam area', {'kind': 'beamarea', 'a': a, 'b': b}, v))
    # ---- obligations
    ctx.oblige('oracle: get_pixinfo = (|CDELT1 CDELT2|, CDELT) when both CDELT are present, else (|det CD|, CD diagonal), else CD diagonal, '
               f'else zeros (64 masks exact, {npix} random headers)', oracle_bad['pixinfo'] is None, oracle_bad['pixinfo'])
    ctx.oblige('oracle: from_header / from_file use the explicit beam, else BMAJ / BMIN / BPA-or-0 of the header, else AssertionError; '
               'get_beam is None exactly without BMAJ or BMIN; refpix = (CRPIX1, CRPIX2); pixscale from get_pixinfo',
               oracle_bad['beam'] is None and oracle_bad['files'] is None, oracle_bad['beam'] or oracle_bad['files'])
    ctx.oblige('oracle: fix_aips_header leaves complete headers alone, else takes the first AIPS line that contains BMAJ (words 3, 5, 7) '
               'and appends one HISTORY card; KeyError without HISTORY card (recorded)', oracle_bad['aips'] is None and flags_ok,
               oracle_bad['aips'])
    ctx.oblige(f'oracle: psf-map lookups read the cell int(clip(FITS pixel)) ({npsf} positions), get_skybeam / get_psf_sky2pix / '
               'get_beamarea_deg2 follow it, a NaN cell gives no beam', oracle_bad['psfmap'] is None, oracle_bad['psfmap'])
    ctx.oblige(f'oracle: sky_sep is the great-circle distance of the FITS-standard positions of the two (row, column) pixels, symmetric '
               f'({nsep} pairs on {nh} WCS)', oracle_bad['sky_sep'] is None, oracle_bad['sky_sep'])
    # the AIPS history is not consulted by from_header (generated constant) - observed on the real code
    hdr = base_header()
    hdr['HISTORY'] = aips_line((0.0125, 0.01, 12.5))
    with quiet():
        try:
            wh().WCSHelper.from_header(hdr)
            consulted = True
        except AssertionError:
            consulted = False
    ctx.oblige('from_header does not read the AIPS CLEAN history line (generated constant from_header_consults_history = false; '
               'a header with only that line gives AssertionError)', not consulted)
    ctx.notes.append('C16x observations (no obligations): get_pixinfo prefers CDELT over a CD matrix although wcslib ignores CDELT when CD '
                     'cards are present; its pixscale for a rotated CD matrix is the diagonal (s cos t), not the scale; '
                     'get_beamarea_deg2 / _pix are pi a b (FWHM axes), the Gaussian beam area is pi a b / (4 ln 2) - the caller multiplies '
                     'by 4 ln 2; fix_aips_header raises KeyError for a header without beam cards and without HISTORY')
    if model_ok:
        t1 = time.time()
        vals, err = vlib.coq_eval(ctx, IMPORTS, exprs, shard=120, workers=6)
        if vals is None:
            ctx.oblige('correspondence (C16x): model evaluation', False, err)
        else:
            nbad = 0
            for v, w, (name, fi, got) in zip(vals, wants, metas):
                w2 = list(w) if isinstance(w, tuple) else w
                v2 = list(v) if isinstance(v, tuple) else v
                if v2 != w2:
                    nbad += 1
                    if nbad <= 3:
                        ctx.mismatch(f'correspondence: {name}', fi, impl=got, model=v)
            ctx.oblige(f'correspondence (exact, vm_compute): get_pixinfo branch on 64 masks, beam source on 16 cases, fix_aips_header '
                       f'pick, psf-map cell ({len(exprs)} evaluations)', nbad == 0, f'{nbad} differ')
            ctx.traces += len(exprs)
        badg = vlib.coq_certify(ctx, CERT_HEADER, goals, shard=4 if quick else 8, workers=6)
        for kk, err in badg[:3]:
            name, fi, out = gmetas[kk] if 0 <= kk < len(gmetas) else ('?', None, None)
            ctx.mismatch(f'certified correspondence: {name} differs from the generated Coq definition', fi, impl=out, model=err[-400:])
        ctx.oblige(f'certified correspondence (C16x): {len(goals)} certificates (get_pixinfo on random headers, sky_sep on real WCS, beam '
                   'areas; interval-checked)', not badg and len(goals) >= 10, f'{len(badg)} shards failed')
        ctx.traces += len(goals)
        ctx.notes.append(f'C16x: model evaluation and certificates {time.time() - t1:.1f}s')
    ctx.notes.append(f'C16x: total {time.time() - t0:.1f}s')


def search_extra(ctx):
    work = os.path.join(ctx.work, 'c16x_search')
    for fi in structured_problems(ctx, ctx.rng, 15, work):
        return fi
    return None


def replay_extra(ctx, fi):
    work = os.path.join(ctx.work, 'c16x_replay')
    kind = fi['kind']
    if kind == 'pixinfo':
        p = pixinfo_problem(fi['values'], tol=0 if all(float(v).is_integer() for v in fi['values'].values()) else 2.0 ** -40)
        print('header values:', fi['values'])
    elif kind == 'beam':
        p = beam_problem(fi['arg'], fi['values'])
        print('explicit beam:', fi['arg'], 'header values:', fi['values'])
    elif kind == 'aips':
        hist = fi['history']
        if hist is not None:
            hist = [(x[0], tuple(x[1]) if isinstance(x[1], list) else x[1]) for x in hist]
        p = aips_problem(fi['present'], hist)
        print('present:', fi['present'], 'history:', hist)
    elif kind in ('psfmap', 'psfmap-nan'):
        h, data, shape = psf_fixture(work, nan_cell=(3, 4) if kind == 'psfmap-nan' else None)
        p = psf_problem(h, data, shape, *fi['pos']) if fi.get('pos') else fi.get('what')
        print('psf map 5 x 7, position:', fi.get('pos'))
    elif kind == 'psfpix':
        h, data, shape = psf_fixture(work)
        p = pix2pix_problem(h, *fi['pixel'])
        print('psf map 5 x 7 on a 100 x 100 image, pixel:', fi['pixel'])
    elif kind == 'sky_sep':
        m = c16()
        with quiet():
            h = m.helper_of(fi['header'])
        p = sep_problem(fi['header'], h, tuple(fi['pixels'][0]), tuple(fi['pixels'][1]))
        print('header:', fi['header'], 'pixels:', fi['pixels'])
    else:
        p = fi.get('what')
    print('implementation:', p or 'property holds on this input')
    return 1 if p else 0
