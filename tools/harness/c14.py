"""C14 - AeRes model images are the catalogue's Gaussians; subtraction closes the loop."""
import json
import math
import os
import subprocess
import sys
import time

import numpy as np

if __name__ == '__main__':
    sys.path.insert(0, os.path.dirname(os.path.dirname(os.path.abspath(__file__))))
import vlib  # noqa: E402
from fixtures import make_header, write_image  # noqa: E402
from vlib import rlit  # noqa: E402

GEN = ['AeRes', 'Gauss']
EXTRA_TARGETS = ['Proofs/AeResCert.vo', 'Refuted/C14_rename.vo']
LEVEL = 'proof'
TRUSTED = [
    'Coq 8.16.1 kernel; the real-number axioms of the standard library (sig_forall_dec, sig_not_dec, functional_extensionality_dep, '
    'classic) and, for the constants bounded by `interval` (k_window, 2^-100 tail), the primitive-float specification used by Interval',
    'translator tools/translate.py + tools/points_c14.py (R back end): reading of + - * / abs max min np.floor np.ceil int() np.cos np.sin '
    'np.radians np.sqrt np.log, of the two `if not lo <= v < hi: continue` guards, of the np.mgrid slice, of the positional arguments of '
    'fitting.elliptical_gaussian, of the two np.where comparisons, of `m[x, y] += model`, of the add/mask branch of make_residual and of the '
    'required_cols / new_cols lists and the pick - remove_columns - add_column statements of load_sources (any other shape is refused); every other statement of the loop must be one of: logging, the isfinite guard, ravel, i_count',
    'Interval tactic: each per-case lemma (|model_px - make_model pixel| <= tol ; blank_px = isnan(pixel)) is checked by the kernel',
    'hand-written skeleton Model/AeRes.v (loop over the catalogue, option/nan for blanked pixels, pick/remove/add of table columns) - tied by the '
    'per-case lemmas and by the file-level make_residual / load_sources comparisons',
    'wcshelper.sky2pix_ellipse is an uninterpreted function in the theorems; its real outputs are tabulated by the harness (binary64, '
    'exact dyadics) and fed to the model. That they are the catalogued sky position / axes / PA is property C16',
    'numpy float32/float64 arithmetic, astropy FITS and table I/O (inputs/outputs of the comparison); lmfit/MINPACK in the find->subtract loop',
    'command line glue AegeanTools/CLI/AeRes.py (argument parsing, defaults, option -> keyword mapping, argument order, output '
    'naming) is not modelled in Coq; it is tied on every run by tools/harness/cli_cases.py: AeRes command lines (-c -f -r -m, --add, --mask with --sigma / --frac, --racol ... --pacol, csv / fits / vot catalogues) run in subprocesses and '
    'the files they write equal, bit for bit (tables apart from uuids), those of the library call that --help and the docstrings promise',
]
ASSUMPTIONS = [
    'round-off: a make_model pixel is within 1e-6 * (sum of |peak| of the sources evaluated on it) of the real-valued model (the array is '
    'float32: 2^-24 relative per accumulation); a pixel no source is evaluated on is exactly 0.0',
    'pixels whose window membership or threshold comparison is closer than 1e-9 to a tie are not compared (floor/ceil/>= of a rounded '
    'binary64 value need not agree with the real-valued model there)',
    'sx > 0, sy > 0 and finite (validated on every tabulated sky2pix_ellipse output); local_rms finite in sigma mask mode',
    'add-then-subtract restores float32 data only up to one rounding of (data + model): compared with tolerance 2^-21 (|data| + |model|)',
    'the find -> subtract residual bound (1e-3 peak) depends on the optimiser: validated on the real finder, not proved',
]
HEADER = ("From Coq Require Import Reals ZArith List.\nFrom Interval Require Import Tactic.\n"
          "From Aegean Require Import Lib.RBase Gen.Gauss Gen.AeRes Model.AeRes Proofs.AeResProofs Proofs.AeResCert.\n"
          "Import ListNotations.\nOpen Scope R_scope.")
F2C = 1.0 / (2.0 * math.sqrt(2.0 * math.log(2.0)))
PROJS = ['SIN', 'TAN', 'ZEA', 'ARC', 'STG', 'CAR', 'AIT', 'MER']
TIE = 1e-9


# ------------------------------------------------------------------------------------------ helpers
class Stub:
    """stands for a WCSHelper: row k (identified by ra == k) gets the prescribed sky2pix_ellipse result"""

    def __init__(self, ells):
        self.ells = ells

    def sky2pix_ellipse(self, pos, a, b, pa):
        return tuple(float(v) for v in self.ells[int(round(pos[0]))])


class Recorder:
    def __init__(self, inner):
        self.inner = inner
        self.calls = []

    def sky2pix_ellipse(self, pos, a, b, pa):
        r = self.inner.sky2pix_ellipse(pos, a, b, pa)
        self.calls.append(([float(pos[0]), float(pos[1])], float(a), float(b), float(pa), tuple(float(v) for v in r)))
        return r


def build_header(spec, shape):
    h = make_header(tuple(shape), proj=spec['proj'], crval=tuple(spec['crval']), cdelt=spec['cdelt'],
                    crpix=tuple(spec['crpix']) if spec.get('crpix') else None)
    if spec.get('crota'):
        h['CROTA2'] = float(spec['crota'])
    return h


def build_helper(spec, shape):
    from AegeanTools.wcs_helpers import WCSHelper
    if spec['kind'] == 'stub':
        return Stub(spec['ells'])
    return WCSHelper.from_header(build_header(spec, shape))


def mk_source(r):
    from AegeanTools.models import ComponentSource
    s = ComponentSource()
    s.ra, s.dec, s.peak_flux, s.a, s.b, s.pa, s.local_rms = (float(r[k]) for k in ('ra', 'dec', 'peak', 'a', 'b', 'pa', 'rms'))
    return s


def run_impl(case, rows=None):
    """-> (array, recorded sky2pix_ellipse calls)"""
    from AegeanTools import AeRes
    rows = case['rows'] if rows is None else rows
    rec = Recorder(build_helper(case['wcs'], case['shape']))
    opt = case['opt']
    m = AeRes.make_model([mk_source(r) for r in rows], tuple(case['shape']), rec,
                         mask=bool(opt['mask']), frac=opt.get('frac'), sigma=opt.get('sigma', 4))
    return m, rec.calls


def oracle(shape, ells, rows, opt):
    """independent NumPy rendering.  -> dict(expected model (float64), scale = sum |peak| of evaluating sources, sure = pixels
    whose window membership is not a near-tie, blank, blank_sure, accepted list, regular)"""
    s0, s1 = shape
    I, J = np.indices((s0, s1)).astype(float)
    exp = np.zeros((s0, s1))
    full = np.zeros((s0, s1))
    scale = np.zeros((s0, s1))
    sure = np.ones((s0, s1), bool)
    blank = np.zeros((s0, s1), bool)
    bsure = np.ones((s0, s1), bool)
    accepted, regular, wins, nonfinite = [], True, [], False
    for (xo, yo, sx, sy, th), r in zip(ells, rows):
        if not all(math.isfinite(v) for v in (xo, yo, sx, sy, th)):
            # a position that the WCS cannot project onto the image plane (or a NaN catalogue row) has no Gaussian on the image:
            # it contributes nothing and must leave the other sources alone
            nonfinite = True
            accepted.append(None)
            wins.append(None)
            continue
        if not (sx > 0 and sy > 0):
            regular = False
            accepted.append(None)
            wins.append(None)
            continue
        # the centre (0-based xo-1, yo-1) lies in pixel floor(c + 1/2); accepted iff that is a pixel of the image
        cx, cy = math.floor(xo - 0.5), math.floor(yo - 0.5)
        acc = (0 <= cx < s0) and (0 <= cy < s1)
        accepted.append(acc)
        if not acc:
            wins.append(None)
            continue
        t = math.radians(th)
        xoff = 5 * (abs(sx * math.cos(t)) + abs(sy * math.sin(t)))
        yoff = 5 * (abs(sx * math.sin(t)) + abs(sy * math.cos(t)))
        mx = np.minimum(I + 1 - (xo - xoff), (xo + xoff) - I)     # > 0 inside the window
        my = np.minimum(J + 1 - (yo - yoff), (yo + yoff) - J)
        win = (mx > 0) & (my > 0)
        tie = (np.abs(mx) < TIE) | (np.abs(my) < TIE)
        sure &= ~tie
        dx, dy = I - (xo - 1), J - (yo - 1)
        u = dx * math.cos(t) + dy * math.sin(t)
        v = -dx * math.sin(t) + dy * math.cos(t)
        g = r['peak'] * np.exp(-0.5 * ((u / (sx * F2C)) ** 2 + (v / (sy * F2C)) ** 2))
        exp += np.where(win, g, 0.0)
        full += g
        scale += np.where(win, abs(r['peak']), 0.0)
        wins.append((win, tie, g))
        if opt['mask']:
            thr = abs(opt['frac'] * r['peak']) if opt.get('frac') is not None else opt.get('sigma', 4) * r['rms']
            hit = np.abs(g) >= thr
            near = (np.abs(np.abs(g) - thr) <= TIE * abs(thr)) & (thr != 0)
            blank |= win & hit
            bsure &= ~(tie | (win & near))
    return dict(exp=exp, full=full, scale=scale, sure=sure, blank=blank, bsure=bsure, accepted=accepted, regular=regular, wins=wins,
                nonfinite=nonfinite)


def compare(case, m, ells, rows=None):
    """the violation oracle: None or a description of the first difference between make_model and the independent rendering"""
    rows = case['rows'] if rows is None else rows
    shape, opt = tuple(case['shape']), case['opt']
    if m.shape != shape:
        return f'make_model returned shape {m.shape} for an image of shape {shape}'
    o = oracle(shape, ells, rows, opt)
    if not o['regular']:
        return None
    if opt['mask']:
        isn = np.isnan(m)
        bad = (isn != o['blank']) & o['bsure']
        if bad.any():
            i, j = map(int, np.argwhere(bad)[0])
            return (f"mask mode: pixel ({i},{j}) is {'blanked' if isn[i, j] else 'not blanked'} but "
                    f"{'no' if not o['blank'][i, j] else 'a'} source's model reaches its threshold there "
                    f"({int(bad.sum())} pixels differ; {int(isn.sum())} blanked, {int(o['blank'].sum())} expected)")
        rest = ~isn & (m != 0)
        if rest.any():
            i, j = map(int, np.argwhere(rest)[0])
            return f'mask mode: pixel ({i},{j}) of the mask array is {m[i, j]!r}, expected 0 or nan'
        return None
    if not np.all(np.isfinite(m)):
        i, j = map(int, np.argwhere(~np.isfinite(m))[0])
        return f'model pixel ({i},{j}) is {m[i, j]!r}'
    d = np.abs(m.astype(float) - o['exp'])
    bad = (d > 1e-6 * o['scale'] + 1e-38) & o['sure']
    if bad.any():
        i, j = map(int, np.unravel_index(np.argmax(np.where(bad, d, 0)), shape))
        return (f'model pixel ({i},{j}) = {float(m[i, j])!r}; the sum of the catalogue Gaussians evaluated there is '
                f"{float(o['exp'][i, j])!r} (sum of contributing |peak| = {float(o['scale'][i, j])!r}; {int(bad.sum())} pixels differ)")
    # property clause "to 1e-4 of the peak": against the untruncated sum over the accepted sources
    tot = sum(abs(r['peak']) for r, a in zip(rows, o['accepted']) if a)
    d2 = np.abs(m.astype(float) - o['full'])
    if tot and (d2 > 1e-4 * tot).any():
        i, j = map(int, np.unravel_index(np.argmax(d2), shape))
        return (f"model pixel ({i},{j}) = {float(m[i, j])!r} differs from the untruncated sum of Gaussians {float(o['full'][i, j])!r} "
                f'by more than 1e-4 of the peak')
    return None


def case_problem(case):
    """run the implementation on one case; -> (message or None, array, ells)"""
    try:
        m, calls = run_impl(case)
    except Exception as e:  # the property says: no error
        return f'make_model raised {type(e).__name__}: {e}', None, None
    rows = case['rows']
    if len(calls) != len(rows):
        return f'sky2pix_ellipse was called {len(calls)} times for {len(rows)} sources', None, None
    for r, (pos, a, b, pa, _) in zip(rows, calls):
        want = ([float(r['ra']), float(r['dec'])], float(r['a']) / 3600, float(r['b']) / 3600, float(r['pa']))
        if (pos, a, b, pa) != want:
            return (f'sky2pix_ellipse was called with {(pos, a, b, pa)!r} for the catalogue row with (ra, dec)={want[0]}, a/3600={want[1]!r}, '
                    f'b/3600={want[2]!r}, pa={want[3]!r}'), None, None
    ells = [c[4] for c in calls]
    return compare(case, m, ells), m, ells


def shrink(case, pred):
    """smallest sub-catalogue on which pred(case) still holds"""
    best = case
    changed = True
    while changed and len(best['rows']) > 1:
        changed = False
        for k in range(len(best['rows'])):
            c = json.loads(json.dumps(best))
            del c['rows'][k]
            if len(c.get('labels', [])) > k:
                del c['labels'][k]
            if c['wcs']['kind'] == 'stub':
                del c['wcs']['ells'][k]
                for n, r in enumerate(c['rows']):
                    r['ra'] = float(n)
            if pred(c):
                best, changed = c, True
                break
    return best


# ------------------------------------------------------------------------------------------ generators
def place(rng, n, lo=-0.49):
    """a 0-based coordinate along an axis of n pixels, biased to the edges; -> (value, label)"""
    k = rng.randrange(9)
    if k == 0:
        return rng.uniform(n - 1.45, n - 0.55), 'last'          # centred in the last row / column
    if k == 1:
        return rng.uniform(-0.45, 0.45), 'first'
    if k == 2:
        return n - 0.5 + rng.uniform(0.01, 0.4), 'just-off-high'
    if k == 3:
        return -0.5 - rng.uniform(0.01, 0.4), 'just-off-low'
    if k == 4:
        return rng.choice([-1, 1]) * rng.uniform(2, 30) + (n if rng.random() < .5 else 0), 'far'
    if k == 5:
        return rng.uniform(n - 4, n - 1.6), 'near-high'
    return rng.uniform(1, n - 2), 'interior'


def wcs_case(rng, k, opt):
    from AegeanTools.wcs_helpers import WCSHelper
    shape = [rng.randrange(24, 56), rng.randrange(24, 56)]
    cd = rng.choice([5.0, 10.0, 30.0]) / 3600
    spec = {'kind': 'wcs', 'proj': PROJS[k % len(PROJS)],
            'crval': [rng.uniform(0, 360), rng.uniform(-70, 70) if k % 3 else rng.choice([-85.0, 0.0, 80.0])],
            'cdelt': [-cd, cd * rng.choice([1.0, 1.0, 0.8])], 'crpix': [rng.uniform(1, shape[1]), rng.uniform(1, shape[0])],
            'crota': rng.choice([0, 0, 25.0, -60.0])}
    wh = WCSHelper.from_header(build_header(spec, shape))
    rows, labels = [], []
    for _ in range(rng.choice([1, 2, 3, 4])):
        (x0, lx), (y0, ly) = place(rng, shape[0]), place(rng, shape[1])
        if lx != 'interior' and ly != 'interior' and rng.random() < .5:
            y0, ly = rng.uniform(1, shape[1] - 2), 'interior'
        ra, dec = wh.pix2sky([x0 + 1, y0 + 1])
        fa = rng.uniform(1.2, 7.0)
        fb = fa * rng.uniform(0.3, 1.0)
        peak = rng.choice([-1, 1]) * rng.choice([1.0, 0.02, 35.0]) * rng.uniform(0.5, 2)
        rows.append({'ra': float(ra), 'dec': float(dec), 'peak': peak, 'a': fa * cd * 3600, 'b': fb * cd * 3600,
                     'pa': rng.uniform(-180, 180), 'rms': abs(peak) * rng.choice([0.01, 0.05, 0.2])})
        labels.append(f'{lx}/{ly}')
    if rng.random() < 0.3:
        # a catalogue row that has no position on this image: the far side of the sky (no SIN / TAN projection), or NaN coordinates
        far = rng.random() < 0.7
        ra, dec = ((spec['crval'][0] + 180.0 + rng.uniform(-20, 20)) % 360.0, -spec['crval'][1] + rng.uniform(-5, 5)) if far else \
            (float('nan'), float('nan'))
        peak = rng.choice([-1, 1]) * rng.uniform(0.5, 30)
        at = rng.randrange(len(rows) + 1)
        rows.insert(at, {'ra': ra, 'dec': max(-89.9, min(89.9, dec)) if far else dec, 'peak': peak, 'a': 60.0 * cd * 60, 'b': 40.0 * cd * 60,
                                                     'pa': rng.uniform(-90, 90), 'rms': abs(peak) * 0.05})
        labels.insert(at, 'far-side' if far else 'nan-position')
    return {'shape': shape, 'wcs': spec, 'rows': rows, 'opt': opt, 'labels': labels}


def stub_case(rng, k, opt):
    """exact edge positions through a stub helper: xo, yo are 1-based pixel coordinates"""
    s0, s1 = rng.randrange(8, 30), rng.randrange(8, 30)
    xs = [(0.5, 'x=0.5 (first, accepted)'), (0.5 - 2.0 ** -40, 'x<0.5 (rejected)'), (s0 + 0.5, 'x=n+0.5 (rejected)'),
          (s0 + 0.5 - 2.0 ** -30, 'x<n+0.5 (last, accepted)'), (float(s0), 'x=n (last)'), (1.0, 'x=1 (first)'),
          (s0 + 0.25, 'x=n+0.25 (last)'), (s0 / 2 + 0.3, 'interior')]
    ys = [(0.5, 'y=0.5'), (0.5 - 2.0 ** -40, 'y<0.5'), (s1 + 0.5, 'y=n+0.5'), (s1 + 0.5 - 2.0 ** -30, 'y<n+0.5'),
          (float(s1), 'y=n'), (1.0, 'y=1'), (s1 + 0.25, 'y=n+0.25'), (s1 / 2 + 0.3, 'interior')]
    ells, rows, labels = [], [], []
    for n in range(rng.choice([1, 2, 3])):
        (xo, lx) = xs[(k + 3 * n) % len(xs)]
        (yo, ly) = rng.choice(ys) if n else ys[(k // len(xs) + k) % len(ys)]
        sx = rng.choice([0.4, 1.0, 2.0, 3.7, 9.0])
        sy = sx * rng.choice([1.0, 0.5, 0.31])
        th = rng.choice([0.0, 90.0, 45.0, -30.0, 180.0, 270.0, 123.4, -90.0])
        peak = rng.choice([-3.0, 1.0, 2.5, -0.75])
        ells.append([xo, yo, sx, sy, th])
        rows.append({'ra': float(n), 'dec': 0.0, 'peak': peak, 'a': 10.0, 'b': 5.0, 'pa': 0.0, 'rms': abs(peak) * rng.choice([0.05, 0.2])})
        labels.append(f'{lx}/{ly}')
    return {'shape': [s0, s1], 'wcs': {'kind': 'stub', 'ells': ells}, 'rows': rows, 'opt': opt, 'labels': labels}


def rand_opt(rng, k):
    c = k % 5
    if c in (0, 1):
        return {'mask': False}
    if c in (2, 3):
        return {'mask': True, 'frac': rng.choice([0.5, 0.1, 0.9, 1e-3, 0.0, -0.5, 1.0, 0.25])}
    return {'mask': True, 'frac': None, 'sigma': rng.choice([4, 2.5, 10, 1])}


# ------------------------------------------------------------------------------------------ certified correspondence
def src_lit(e, r):
    return '(mkSrc ' + ' '.join(rlit(v) for v in (r['peak'], r['rms'], e[0], e[1], e[2], e[3], e[4])) + ')'


def pick_pixels(rng, case, ells, o, want):
    s0, s1 = case['shape']
    px = [(0, 0), (s0 - 1, s1 - 1), (0, s1 - 1), (s0 - 1, 0)]
    for (xo, yo, sx, sy, th), w in zip(ells, o['wins']):
        cx, cy = int(math.floor(xo - 0.5)), int(math.floor(yo - 0.5))
        px += [(cx, cy), (cx + 1, cy), (cx, cy - 1), (cx + int(round(sx * F2C)) + 1, cy + 1)]
        if w is not None:
            win = w[0]
            ii, jj = np.where(win.any(1))[0], np.where(win.any(0))[0]
            if len(ii) and len(jj):
                # corners of the evaluated window, inside and one step outside
                px += [(ii[0], jj[0]), (ii[-1], jj[-1]), (ii[0] - 1, jj[0]), (ii[-1] + 1, jj[-1]), (ii[0], jj[0] - 1), (ii[-1], jj[-1] + 1)]
            if case['opt']['mask']:
                # around the threshold contour: first / last blanked pixel of the centre row
                row = np.where(o['blank'][min(max(cx, 0), s0 - 1)])[0]
                if len(row):
                    px += [(cx, row[0]), (cx, row[0] - 1), (cx, row[-1]), (cx, row[-1] + 1)]
    for _ in range(3):
        px.append((rng.randrange(s0), rng.randrange(s1)))
    out, seen = [], set()
    sure = o['bsure'] if case['opt']['mask'] else o['sure']
    for (i, j) in px:
        i, j = int(i), int(j)
        if 0 <= i < s0 and 0 <= j < s1 and (i, j) not in seen and sure[i, j]:
            seen.add((i, j))
            out.append((i, j))
    rng.shuffle(out)
    return out[:want]


def cert_goals(rng, case, m, ells, want):
    shape, opt, rows = case['shape'], case['opt'], case['rows']
    o = oracle(tuple(shape), ells, rows, opt)
    if not o['regular'] or o['nonfinite']:
        return []
    cat = '[' + '; '.join(src_lit(e, r) for e, r in zip(ells, rows)) + ']'
    goals = []
    for (i, j) in pick_pixels(rng, case, ells, o, want):
        # hints only order the attempts of the tactics (c14_in tries "evaluated here" first, c14_out "not evaluated" first ...)
        cov = [w is not None and bool(w[0][i, j]) for w in o['wins']]
        if opt['mask']:
            mode = f"(ByFrac {rlit(opt['frac'])})" if opt.get('frac') is not None else f"(BySigma {rlit(opt.get('sigma', 4))})"
            b = 'true' if np.isnan(m[i, j]) else 'false'
            hints = []
            for c, w, r in zip(cov, o['wins'], rows):
                if not c:
                    hints.append('c14_bw.')
                else:
                    thr = abs(opt['frac'] * r['peak']) if opt.get('frac') is not None else opt.get('sigma', 4) * r['rms']
                    hints.append('c14_bt.' if abs(w[2][i, j]) >= thr else 'c14_bh.')
            g = (f"Goal blank_px {shape[0]} {shape[1]} {mode} {cat} {i} {j} = {b}. Proof. c14_bstart. {' '.join(hints)} c14_bdone. Qed.")
        else:
            y = float(m[i, j])
            tol = 1e-6 * float(o['scale'][i, j])
            hints = ' '.join('c14_in.' if c else 'c14_out.' for c in cov)
            g = (f"Goal Rabs (model_px {shape[0]} {shape[1]} {cat} {i} {j} - {rlit(y)}) <= {rlit(tol)}. "
                 f"Proof. c14_start. {hints} c14_done. Qed.")
        goals.append((g, {'pixel': [i, j], 'impl': None if np.isnan(m[i, j]) else float(m[i, j]),
                          'covered_by': int(sum(1 for w in o['wins'] if w is not None and w[0][i, j]))}))
    return goals


# ------------------------------------------------------------------------------------------ files: load_sources / make_residual
CANON = ['ra', 'dec', 'peak_flux', 'a', 'b', 'pa']
PARAMS = ['ra_col', 'dec_col', 'peak_col', 'a_col', 'b_col', 'pa_col']
ROWKEY = dict(zip(CANON, ['ra', 'dec', 'peak', 'a', 'b', 'pa']))


def write_catalogue(path, rows, names, extra=None):
    """names: canonical field -> column name in the file"""
    from astropy.table import Table
    cols = {names[c]: [float(r[ROWKEY[c]]) for r in rows] for c in CANON}
    cols['local_rms'] = [float(r['rms']) for r in rows]
    for k, v in (extra or {}).items():
        cols[k] = v
    t = Table(cols)
    if path.endswith('.vot'):
        t.write(path, format='votable', overwrite=True)
    elif path.endswith('.tab'):
        t.write(path, format='ascii.tab', overwrite=True)
    else:
        t.write(path, overwrite=True)


def roundtrip_problem(work, rows, ext, tag):
    """astropy only (no AegeanTools): write the canonical table, read it back the way catalogs.load_table does"""
    from astropy.io import ascii
    from astropy.table import Table
    p = os.path.join(work, f'cat_{tag}.{ext}')
    write_catalogue(p, rows, dict(zip(CANON, CANON)))
    try:
        t = ascii.read(p) if ext in ('csv', 'tab') else Table.read(p)
        for c in CANON + ['local_rms']:
            have = [float(v) for v in t[c]]
            want = [float(r['rms' if c == 'local_rms' else ROWKEY[c]]) for r in rows]
            if [None if math.isnan(v) else v for v in have] != [None if math.isnan(v) else v for v in want]:
                return f'astropy round trip of column {c} through .{ext}: wrote {want}, read {have}'
    except Exception as e:
        return f'astropy round trip through .{ext} raised {type(e).__name__}: {e}'
    return None


def load_problem(work, rows, names, ext, tag, extra=None):
    """load_sources with renamed columns must give each source the values of the user-named columns"""
    from AegeanTools import AeRes
    p = os.path.join(work, f'cat_{tag}.{ext}')
    write_catalogue(p, rows, names, extra)
    colmap = {pn: names[c] for pn, c in zip(PARAMS, CANON) if names[c] != c}
    try:
        got = AeRes.load_sources(p, **colmap)
    except Exception as e:
        return f'load_sources({colmap}) raised {type(e).__name__}: {e}', p, colmap
    if got is None or len(got) != len(rows):
        return f'load_sources({colmap}) returned {None if got is None else len(got)} sources for {len(rows)} rows', p, colmap
    for k, (s, r) in enumerate(zip(got, rows)):
        have = [float(getattr(s, c)) for c in CANON] + [float(s.local_rms)]
        want = [float(r[ROWKEY[c]]) for c in CANON] + [float(r['rms'])]
        if [None if math.isnan(v) else v for v in have] != [None if math.isnan(v) else v for v in want]:
            return f'load_sources({colmap}): row {k} has (ra,dec,peak_flux,a,b,pa,local_rms) = {have}, the file has {want}', p, colmap
    return None, p, colmap


def residual_problem(work, case, ext, names, tag, rs, extra=None):
    """make_residual through files: model file = make_model, residual = data -/+ model, add then subtract restores, mask blanks"""
    from astropy.io import fits
    from AegeanTools import AeRes
    shape = tuple(case['shape'])
    hdr = build_header(case['wcs'], shape)
    data = rs.normal(0, 1, size=shape).astype(np.float32)
    img = os.path.join(work, f'img_{tag}.fits')
    write_image(img, data, hdr)
    msg, cat, colmap = load_problem(work, case['rows'], names, ext, tag, extra)
    if msg:
        return msg
    opt = case['opt']
    kw = dict(mask=bool(opt['mask']), frac=opt.get('frac'), sigma=opt.get('sigma', 4), colmap=colmap)
    m, _ = run_impl(case)
    out = {}
    for add in (False, True):
        rf, mf = os.path.join(work, f'res_{tag}_{int(add)}.fits'), os.path.join(work, f'mod_{tag}_{int(add)}.fits')
        try:
            AeRes.make_residual(img, cat, rf, mfile=mf, add=add, **kw)
        except Exception as e:
            return f'make_residual(add={add}, {kw}) raised {type(e).__name__}: {e}'
        r, mm = fits.getdata(rf), fits.getdata(mf)
        if not np.array_equal(mm, m, equal_nan=True):
            return f'make_residual(add={add}): the model file differs from make_model on the same catalogue'
        want = data + m if (add or opt['mask']) else data - m
        tol = 2.0 ** -21 * (np.abs(data) + np.abs(np.nan_to_num(m)))
        if not (np.array_equal(np.isnan(r), np.isnan(want)) and np.all((np.abs(r - want) <= tol) | np.isnan(want))):
            return (f"make_residual(add={add}, mask={opt['mask']}): residual is not data {'+' if add or opt['mask'] else '-'} model "
                    f'(max difference {float(np.nanmax(np.abs(r - want)))!r})')
        if opt['mask'] and not np.array_equal(r[~np.isnan(r)], data[~np.isnan(r)]):
            return 'make_residual(mask=True) changed pixels that are not blanked'
        out[add] = rf
    if not opt['mask']:
        # add then subtract restores the image
        rf2 = os.path.join(work, f'res_{tag}_2.fits')
        AeRes.make_residual(out[True], cat, rf2, add=False, **kw)
        back = fits.getdata(rf2)
        tol = 2.0 ** -21 * (np.abs(data) + np.abs(m))
        if not np.all(np.abs(back - data) <= tol):
            return f'adding then subtracting the model does not restore the image (max difference {float(np.max(np.abs(back - data)))!r})'
    return None


# ------------------------------------------------------------------------------------------ find -> subtract
def loop_problem(work, spec, shape, comps, tag):
    """noise-free isolated sources -> real finder -> make_model -> residual below 1e-3 of the (smallest) peak"""
    from AegeanTools import AeRes, fitting
    from AegeanTools.source_finder import SourceFinder
    from AegeanTools.wcs_helpers import WCSHelper
    hdr = build_header(spec, shape)
    wh = WCSHelper.from_header(hdr)
    yy, xx = np.indices(shape).astype(float)
    img = np.zeros(shape)
    for (amp, x0, y0, sx, sy, th) in comps:
        img += fitting.elliptical_gaussian(yy, xx, amp, x0, y0, sx, sy, th)
    p = os.path.join(work, f'loop_{tag}.fits')
    write_image(p, img.astype(np.float32), hdr)
    sf = SourceFinder()
    found = sf.find_sources_in_image(p, rms=1e-3 * min(abs(c[0]) for c in comps), bkg=0.0, cores=1, innerclip=5, outerclip=4,
                                     nonegative=False, nopositive=False)
    if len(found) != len(comps):
        return None, f'finder returned {len(found)} sources for {len(comps)} injected (not a C14 matter; case skipped)'
    m = AeRes.make_model(found, shape, wh)
    res = float(np.max(np.abs(img.astype(np.float32) - m)))
    peak = min(abs(c[0]) for c in comps)
    if res >= 1e-3 * peak:
        return f'find -> subtract leaves a residual of {res!r} = {res / peak:.3g} of the peak {peak}', None
    return None, None


# ------------------------------------------------------------------------------------------ run
def run(ctx, model_ok=True):
    import logging
    logging.disable(logging.CRITICAL)
    rng = ctx.rng
    quick = ctx.tier == 'quick'
    loops = [(j, spawn(j)) for j in loop_jobs(ctx, rng, 2 if quick else 8)]
    ctx.rule = ('case = (image shape, WCS header or stub, catalogue, options). evaluations = one make_model / make_residual / load_sources / '
                'finder run compared with the independent rendering, or one kernel-checked per-pixel lemma. distinct key = (projection or '
                'stub, option kind, sorted edge labels of the sources); non-trivial = at least one source whose centre is on the image '
                '(a catalogue that is entirely off the image, or empty, is trivial).')
    n_wcs, n_stub, per_case = (20, 12, 3) if quick else (96, 64, 6)
    cases = [wcs_case(rng, k, rand_opt(rng, k)) for k in range(n_wcs)] + [stub_case(rng, k, rand_opt(rng, k + 2)) for k in range(n_stub)]
    # the empty catalogue and a catalogue that is entirely off the image
    cases.append({'shape': [9, 11], 'wcs': {'kind': 'stub', 'ells': []}, 'rows': [], 'opt': {'mask': False}, 'labels': []})
    filejobs = [(j, spawn(j)) for j in file_jobs(ctx, rng, cases, 6 if quick else 24)]   # 6 naming schemes x 4 formats
    # one-row tables whose requested column clashes with an existing catalogue name / with swapped names
    one = [{'ra': 150.0, 'dec': -30.0, 'peak': 2.0, 'a': 30.0, 'b': 20.0, 'pa': 10.0, 'rms': 0.1}]
    renjobs = [(j, spawn(j)) for j in (
        {'kind': 'rename', 'work': ctx.work, 'rows': one, 'names': SCHEMES[4], 'extra': {k2: v[:1] for k2, v in EXTRA[4].items()}, 'tag': 'coll'},
        {'kind': 'rename', 'work': ctx.work, 'rows': one, 'names': SCHEMES[5], 'extra': {}, 'tag': 'swap'})]
    goals, metas = [], []
    nreg = 0
    nviol = 0
    for k, case in enumerate(cases):
        msg, m, ells = case_problem(case)
        kind = case['wcs'].get('proj', 'stub')
        optk = 'model' if not case['opt']['mask'] else ('mask-frac' if case['opt'].get('frac') is not None else 'mask-sigma')
        nontrivial = False
        if ells is not None:
            o = oracle(tuple(case['shape']), ells, case['rows'], case['opt'])
            nontrivial = any(a for a in o['accepted'])
            if case['wcs']['kind'] == 'wcs':
                # positions that have no image on the plane (far side of a SIN / TAN sky, NaN rows) come back all-NaN; the others
                # are finite with positive axes
                proj = [e for e, lab in zip(ells, case['labels']) if lab not in ('far-side', 'nan-position')]
                ok = all(math.isfinite(v) for e in proj for v in e) and all(e[2] > 0 and e[3] > 0 for e in proj) and \
                    all(all(math.isfinite(v) for v in e) or all(math.isnan(v) for v in e[:2]) for e in ells)
                nreg += len(proj)
                if not ok:
                    ctx.oblige('library hypothesis: sky2pix_ellipse returns finite values with sx > 0, sy > 0', False, str(ells))
        ctx.case(key=(kind, optk, tuple(sorted(case['labels']))) if nontrivial else None, bucket=f'{kind}:{optk}',
                 sample={'shape': case['shape'], 'wcs': case['wcs'], 'rows': case['rows'][:2], 'opt': case['opt']} if k in (0, n_wcs) else None)
        for lab in case['labels']:
            ctx.hist['pos:' + lab] = ctx.hist.get('pos:' + lab, 0) + 1
        if msg:
            nviol += 1
            if nviol <= 3:
                small = shrink(case, lambda c: case_problem(c)[0] is not None)
                ctx.mismatch('make_model vs independent rendering', {k2: small[k2] for k2 in ('shape', 'wcs', 'rows', 'opt')},
                             impl=case_problem(small)[0], is_violation={'kind': 'model', 'case': small, 'what': case_problem(small)[0]})
            continue
        if m is None:
            continue
        # additivity of the implementation over a split of the catalogue (float32: tolerance)
        if not case['opt']['mask'] and len(case['rows']) >= 2:
            h = len(case['rows']) // 2
            sub = []
            for part in (slice(0, h), slice(h, None)):
                c2 = json.loads(json.dumps(case))
                c2['rows'] = case['rows'][part]
                if c2['wcs']['kind'] == 'stub':
                    c2['wcs']['ells'] = case['wcs']['ells']
                sub.append(run_impl(c2)[0])
            tot = sum(abs(r['peak']) for r in case['rows'])
            ctx.case(key=None, bucket='additivity')
            if not np.all(np.abs(m.astype(float) - (sub[0].astype(float) + sub[1].astype(float))) <= 1e-6 * tot):
                ctx.mismatch('additivity of make_model', {k2: case[k2] for k2 in ('shape', 'wcs', 'rows', 'opt')},
                             is_violation={'kind': 'additive', 'case': case, 'split': h,
                                           'what': 'make_model(c1 + c2) differs from make_model(c1) + make_model(c2)'})
        for g, meta in cert_goals(rng, case, m, ells, per_case):
            goals.append(g)
            meta['case'] = {k2: case[k2] for k2 in ('shape', 'wcs', 'rows', 'opt')}
            meta['ells'] = ells
            metas.append(meta)
    ctx.hyp['sky2pix_ellipse output is finite with sx > 0 and sy > 0 (hypothesis `regular` of C14_window_5sigma / C14_truncation / C14_mask_exact)'] = nreg
    ctx.oblige(f'oracle: make_model equals the independent NumPy rendering on {len(cases)} cases (values, exact zeros outside every window, '
               f'blanked pixels, sky2pix_ellipse arguments)', nviol == 0, f'{nviol} cases differ')
    # ---- certified correspondence
    if model_ok and goals:
        t1 = time.time()
        bad = vlib.coq_certify(ctx, HEADER, goals, shard=24, workers=14)
        for kk, err in bad[:4]:
            meta = metas[kk] if 0 <= kk < len(metas) else {}
            ctx.mismatch('certified correspondence: make_model pixel vs Model.AeRes (model_px / blank_px)', meta.get('case'),
                         impl={'pixel': meta.get('pixel'), 'value': meta.get('impl'), 'sky2pix_ellipse': meta.get('ells')}, model=err[-400:])
        ctx.oblige(f'certified correspondence: {len(goals)} kernel-checked pixel lemmas (value within 1e-6 sum|peak| / exactly 0 / blanked or '
                   f'not) over {len(cases)} cases', not bad, f'{len(bad)} shards failed')
        for _ in goals:
            ctx.case(key=None, bucket='certified-pixel')
        ctx.traces += len(goals)
        ctx.notes.append(f'{len(goals)} interval lemmas took {time.time() - t1:.1f}s')
    # ---- column renaming on one-row tables: a requested column next to a column with the catalogue name; swapped names
    for job, fut in renjobs:
        res, why = collect(ctx, job, fut)
        ctx.case(key=('rename', job['tag']), bucket='load_sources:' + job['tag'])
        if res is None:
            ctx.notes.append(f"rename case {job['tag']}: {why}")
        elif res.get('msg'):
            ctx.mismatch('load_sources with renamed columns (one-row table)', {'names': job['names'], 'extra': job['extra']}, impl=res['msg'],
                         is_violation={'kind': 'rename', 'rows': job['rows'], 'names': job['names'], 'extra': job['extra'],
                                       'what': res['msg']})
    ctx.oblige('load_sources: a requested column that sits next to a column with the catalogue name (peak_col=int_flux with peak_flux '
               'present), and swapped names (a_col=b, b_col=a), reach their fields',
               not any(f.get('what') == 'load_sources with renamed columns (one-row table)' for f in ctx.failures))
    # ---- load_sources / make_residual through files (own processes, started above)
    nfile = nfile_ok = 0
    for job, proc in filejobs:
        res, why = collect(ctx, job, proc)
        if res is None:
            ctx.notes.append(f"file case {job['tag']}: {why}")
            continue
        nfile += 1
        if res.get('control'):
            ctx.oblige('library hypothesis: astropy table write/read round-trips float64 columns', False, res['control'])
            continue
        nfile_ok += 1
        ctx.case(key=('file', job['ext'], tuple(sorted(job['names'].values())), job['case']['opt']['mask']), bucket=f"make_residual:{job['ext']}")
        if res.get('msg'):
            ctx.mismatch('make_residual / load_sources through files', {'names': job['names'], 'ext': job['ext']}, impl=res['msg'],
                         is_violation={'kind': 'file', 'case': job['case'], 'names': job['names'], 'ext': job['ext'], 'extra': job.get('extra'),
                                       'what': res['msg']})
    ctx.hyp['astropy table write/read (csv, vot, fits, tab) round-trips float64 columns'] = nfile
    ctx.oblige(f'make_residual through files on {nfile_ok} (image, catalogue file, column names, options): model file = make_model, residual = '
               'data -/+ model (nan where blanked), add then subtract restores the image (float32 tolerance), renamed columns reach their fields',
               nfile_ok > 0 and not any(f.get('what', '').startswith('make_residual') for f in ctx.failures),
               'no file case completed' if not nfile_ok else '')
    # ---- find -> subtract on the real finder (validation; depends on the optimiser)
    done = 0
    for job, proc in loops:
        res, why = collect(ctx, job, proc)
        ctx.case(key=('loop', job['wcs']['proj'], job['tag']), bucket='find->subtract')
        if res is None or res.get('skipped'):
            ctx.notes.append(f"find->subtract case {job['tag']}: {why or res.get('skipped')}")
            continue
        done += 1
        if res.get('msg'):
            ctx.mismatch('find -> subtract residual', {k2: job[k2] for k2 in ('wcs', 'shape', 'components')}, impl=res['msg'],
                         is_violation={'kind': 'loop', 'wcs': job['wcs'], 'shape': job['shape'], 'components': job['components'],
                                       'what': res['msg']})
    ctx.oblige(f'validation: find -> subtract on the real finder leaves < 1e-3 of the peak ({done} images, 2 isolated sources of either sign each)',
               done > 0 and not any(f.get('what') == 'find -> subtract residual' for f in ctx.failures), 'no finder run completed' if not done else '')
    # ---- command line tie: the argument glue of AegeanTools/CLI vs the library call that --help promises
    from harness import cli_cases
    cli_cases.hook(ctx, cli_cases.aeres_cli, 'AeRes')


# ------------------------------------------------------------------------------------------ jobs in their own processes
# (the finder, and everything that goes through astropy table / FITS files, runs in a fresh interpreter: one job per process)
_POOL = None


def spawn(job):
    """run the job in a fresh interpreter (at most 6 at a time); -> future of (result dict or None, reason)"""
    global _POOL
    if _POOL is None:
        from concurrent.futures import ThreadPoolExecutor
        _POOL = ThreadPoolExecutor(max_workers=6)
    return _POOL.submit(_run_job, job, True)


def _run_job(job, retry):
    try:
        r = subprocess.run([vlib.PY, os.path.abspath(__file__), '--job', json.dumps(job)], stdout=subprocess.PIPE,
                           stderr=subprocess.DEVNULL, text=True, timeout=900)
    except subprocess.TimeoutExpired:
        return None, 'process timed out'
    line = [ln for ln in r.stdout.splitlines() if ln.startswith('RESULT ')]
    if line:
        return json.loads(line[-1][7:]), None
    if retry:
        return _run_job(job, False)
    return None, f'process ended without a result (exit code {r.returncode})'


def collect(ctx, job, fut):
    return fut.result()


def loop_jobs(ctx, rng, nloop):
    jobs = []
    for k in range(nloop):
        shape = [rng.randrange(60, 80), rng.randrange(70, 95)]
        cd = 10.0 / 3600
        spec = {'kind': 'wcs', 'proj': PROJS[(k * 3 + 1) % len(PROJS)], 'crval': [rng.uniform(0, 360), rng.uniform(-60, 60)],
                'cdelt': [-cd, cd], 'crpix': None, 'crota': 0}
        comps = [[rng.choice([1.0, 3.0]), shape[0] * 0.3 + rng.uniform(-2, 2), shape[1] * 0.3 + rng.uniform(-2, 2),
                  rng.uniform(2.2, 3.2), rng.uniform(1.6, 2.1), rng.uniform(-80, 80)],
                 [-rng.choice([1.0, 2.0]), shape[0] * 0.7 + rng.uniform(-2, 2), shape[1] * 0.7 + rng.uniform(-2, 2),
                  rng.uniform(2.2, 3.2), rng.uniform(1.6, 2.1), rng.uniform(-80, 80)]]
        jobs.append({'kind': 'loop', 'work': ctx.work, 'wcs': spec, 'shape': shape, 'components': comps, 'tag': k})
    return jobs


SCHEMES = [dict(zip(CANON, CANON)),
           dict(zip(CANON, ['RAJ2000', 'DEJ2000', 'Sp', 'maj', 'min', 'ang'])),
           dict(zip(CANON, ['ra', 'dec', 'S_peak', 'a', 'b', 'pa'])),
           dict(zip(CANON, ['ra', 'dec', 'peak_flux', 'bmaj', 'bmin', 'pa'])),
           dict(zip(CANON, ['ra', 'dec', 'int_flux', 'a', 'b', 'pa'])),      # + an unrelated peak_flux column (EXTRA)
           dict(zip(CANON, ['ra', 'dec', 'peak_flux', 'b', 'a', 'pa']))]     # swapped: column b holds the major axis
EXTRA = {4: {'peak_flux': [9.0] * 8}}
EXTS = ['csv', 'vot', 'fits', 'tab']


def file_jobs(ctx, rng, cases, n):
    wc = [c for c in cases if c['wcs']['kind'] == 'wcs' and c['rows']]
    return [{'kind': 'file', 'work': ctx.work, 'case': wc[k % len(wc)], 'names': SCHEMES[k % len(SCHEMES)], 'ext': EXTS[k % len(EXTS)],
             'extra': {k2: v[:len(wc[k % len(wc)]['rows'])] for k2, v in EXTRA.get(k % len(SCHEMES), {}).items()},
             'tag': f'f{k}', 'seed': rng.randrange(2 ** 31)} for k in range(n)]


def _job_main(arg):
    import logging
    logging.disable(logging.CRITICAL)
    job = json.loads(arg)
    out = {}
    try:
        if job['kind'] == 'loop':
            out['msg'], out['skipped'] = loop_problem(job['work'], job['wcs'], tuple(job['shape']), [tuple(c) for c in job['components']],
                                                      job['tag'])
        elif job['kind'] == 'file':
            # control for the library hypothesis: astropy alone writes and reads the table back with identical float64 values
            c0 = roundtrip_problem(job['work'], job['case']['rows'], job['ext'], 'ctl' + job['tag'])
            if c0:
                out['control'] = c0
            else:
                out['msg'] = residual_problem(job['work'], job['case'], job['ext'], job['names'], job['tag'],
                                              np.random.RandomState(job['seed']), job.get('extra'))
        elif job['kind'] == 'rename':
            out['msg'], _, _ = load_problem(job['work'], job['rows'], job['names'], 'csv', job['tag'], extra=job['extra'])
    except Exception as e:
        import traceback
        out = {'skipped': f'{type(e).__name__}: {e} {traceback.format_exc()[-600:]}'} if job['kind'] == 'loop' else \
              {'msg': f'{type(e).__name__}: {e} {traceback.format_exc()[-600:]}'}
    print('RESULT ' + json.dumps(out))


# ------------------------------------------------------------------------------------------ search / replay
def search(ctx):
    import logging
    logging.disable(logging.CRITICAL)
    rng = ctx.rng
    t0 = time.time()
    k = 0
    while time.time() - t0 < 60:
        case = (stub_case if k % 2 else wcs_case)(rng, k, rand_opt(rng, k))
        k += 1
        msg, _, _ = case_problem(case)
        if msg:
            small = shrink(case, lambda c: case_problem(c)[0] is not None)
            return {'kind': 'model', 'case': small, 'what': case_problem(small)[0]}
    return None


def replay(ctx, obj):
    import logging
    logging.disable(logging.CRITICAL)
    fi = obj.get('failing_input')
    if not fi:
        print('replay file has no concrete input; broken obligations were:')
        for b in obj.get('broken', []):
            print('  ', b.get('what'), str(b.get('detail', b.get('case', '')))[:400])
        return 1
    if fi.get('kind') == 'cli':
        from harness import cli_cases
        return cli_cases.replay_cli(ctx, fi)
    kind = fi.get('kind')
    msg = None
    if kind == 'model':
        msg, m, ells = case_problem(fi['case'])
        print('sky2pix_ellipse outputs:', ells)
    elif kind == 'additive':
        case = fi['case']
        m, _ = run_impl(case)
        h = fi['split']
        parts = [run_impl(case, rows=case['rows'][:h])[0], run_impl(case, rows=case['rows'][h:])[0]]
        tot = sum(abs(r['peak']) for r in case['rows'])
        if not np.all(np.abs(m.astype(float) - parts[0].astype(float) - parts[1]) <= 1e-6 * tot):
            msg = fi['what']
    elif kind == 'file':
        msg = residual_problem(ctx.work, fi['case'], fi['ext'], fi['names'], 'replay', np.random.RandomState(1), fi.get('extra'))
    elif kind == 'rename':
        msg, _, _ = load_problem(ctx.work, fi['rows'], fi['names'], 'csv', 'replay', extra=fi.get('extra'))
    elif kind == 'loop':
        msg, skipped = loop_problem(ctx.work, fi['wcs'], tuple(fi['shape']), [tuple(c) for c in fi['components']], 'replay')
        if skipped:
            print(skipped)
    print('implementation:', msg or 'property holds on this input')
    return 1 if msg else 0


if __name__ == '__main__':
    if len(sys.argv) == 3 and sys.argv[1] == '--job':
        _job_main(sys.argv[2])
