"""Shared pieces of the C05 harness: catalogue / image builders, the recording patches that make the
placement of priorized fitting observable, the exact affine WCS used by the correspondence check and
the printers / parsers for Model/Priorized.v."""
import contextlib
import copy
import logging
import os
from fractions import Fraction

import numpy as np

import AegeanTools.source_finder as sfm
from AegeanTools import fitting, wcs_helpers
from AegeanTools.models import ComponentSource
from AegeanTools.source_finder import SourceFinder
from fixtures import make_header, write_image

IMPORTS = ("From Coq Require Import ZArith QArith List.\n"
           "From Aegean Require Import Lib.QPy Gen.Priorized Model.Priorized.\n"
           "Import ListNotations.\nOpen Scope Q_scope.\n")

LOG = logging.getLogger('c05-quiet')
LOG.addHandler(logging.NullHandler())
LOG.propagate = False
LOG.setLevel(logging.CRITICAL)

ERR_FIELDS = ('err_ra', 'err_dec', 'err_a', 'err_b', 'err_pa')
PAR_NAMES = ('amp', 'xo', 'yo', 'sx', 'sy', 'theta')


# ------------------------------------------------------------------------------------------
# catalogue entries as plain dicts (JSON friendly) <-> ComponentSource
def to_source(d):
    s = ComponentSource()
    for k in ('ra', 'dec', 'peak_flux', 'a', 'b', 'pa', 'island', 'source', 'flags', 'uuid') + ERR_FIELDS:
        if k in d:
            setattr(s, k, d[k])
    s.err_peak_flux = d.get('err_peak_flux', 0.0)
    if d.get('psf') is not None:
        s.psf_a, s.psf_b, s.psf_pa = d['psf']
    return s


def uuid_int(u):
    return int(str(u)[1:])


# ------------------------------------------------------------------------------------------
class Recorder:
    """patches (inside this process only) that record what _refit_islands hands to the optimiser and to
    result_to_components.  identity=True replaces the optimiser by the identity."""

    def __init__(self, identity, exact_consts=False):
        self.identity = identity
        self.exact_consts = exact_consts
        self.groups = []        # list of island lists (uuids + attribute snapshots) in processing order
        self.islands = {}       # inum -> record
        self.pending = None
        self.fixed_moved = []   # (inum, param, before, after) for non-varying parameters changed by the fit
        self.finder = None

    def snapshot(self, data, params):
        n = int(params['components'].value)
        comps = []
        for i in range(n):
            c = {}
            for nm in PAR_NAMES:
                par = params[f'c{i}_{nm}']
                c[nm] = float(par.value)
                c[nm + '_vary'] = bool(par.vary)
                c[nm + '_min'] = float(par.min)
                c[nm + '_max'] = float(par.max)
            c['flags'] = int(params[f'c{i}_flags'].value)
            comps.append(c)
        return {'shape': tuple(data.shape), 'idata': np.array(data, copy=True), 'comps': comps}

    def __enter__(self):
        rec = self
        self._saved = (sfm.do_lmfit, SourceFinder._refit_islands, SourceFinder.result_to_components,
                       sfm.FWHM2CC, sfm.CC2FHWM)
        real_fit, real_refit, real_r2c = self._saved[:3]

        def do_lmfit(data, params, B=None, errs=None, dojac=True):
            snap = rec.snapshot(data, params)
            if rec.identity:
                p = copy.deepcopy(params)

                class R:
                    pass
                r = R()
                r.params, r.residual, r.success = p, np.zeros(2), True
                rec.pending = snap
                return r, p
            result, p = real_fit(data, params, B=B, errs=errs, dojac=dojac)
            snap['after'] = rec.snapshot(data, result.params)['comps']
            rec.pending = snap
            return result, p

        def _refit_islands(self, group, stage, outerclip=None, istart=0):
            rec.finder = self
            for isle in group:
                rec.groups.append([snap_source(s, self) for s in isle])
            return real_refit(self, group, stage, outerclip, istart=istart)

        def result_to_components(self, result, model, island_data, isflags):
            inum = island_data.isle_num
            rec.islands[inum] = {'fit': rec.pending, 'offsets': tuple(island_data.offsets), 'isflags': int(isflags),
                                 'offset_types': [type(o).__name__ for o in island_data.offsets]}
            rec.pending = None
            return real_r2c(self, result, model, island_data, isflags)

        def snap_source(s, finder):
            d = {k: getattr(s, k) for k in ('ra', 'dec', 'peak_flux', 'a', 'b', 'pa', 'flags', 'uuid') + ERR_FIELDS}
            d['beam'] = tuple(float(v) for v in finder.global_data.psfhelper.get_psf_sky2pix(s.ra, s.dec))[:2]
            return d

        sfm.do_lmfit = do_lmfit
        SourceFinder._refit_islands = _refit_islands
        SourceFinder.result_to_components = result_to_components
        if self.exact_consts:
            sfm.FWHM2CC, sfm.CC2FHWM = 0.5, 2.0
        return self

    def __exit__(self, *a):
        (sfm.do_lmfit, SourceFinder._refit_islands, SourceFinder.result_to_components,
         sfm.FWHM2CC, sfm.CC2FHWM) = self._saved


def norm_wcs(w):
    """older replay files carry one 'scale'; the affine map has separate scales per pixel axis (scx rows / degree of
    dec, scy columns / degree of ra) and per ellipse axis (sca, scb)"""
    w = dict(w)
    for k in ('scx', 'scy', 'sca', 'scb'):
        w.setdefault(k, w.get('scale', 256.0))
    return w


@contextlib.contextmanager
def affine_wcs(w):
    """replace the four WCS conversions of WCSHelper by an affine map with exact binary arithmetic"""
    w = norm_wcs(w)
    cx, cy, scx, scy, sca, scb, ra0, dec0, rot = (w[k] for k in ('cx', 'cy', 'scx', 'scy', 'sca', 'scb', 'ra0', 'dec0', 'rot'))
    H = wcs_helpers.WCSHelper
    saved = (H.sky2pix, H.pix2sky, H.sky2pix_ellipse, H.pix2sky_ellipse)

    def sky2pix(self, pos):
        ra, dec = pos
        return [(dec - dec0) * scx + cx, (ra0 - ra) * scy + cy]

    def pix2sky(self, pixel):
        x, y = pixel
        return [ra0 - (y - cy) / scy, dec0 + (x - cx) / scx]

    def sky2pix_ellipse(self, pos, a, b, pa):
        x, y = sky2pix(self, pos)
        return x, y, a * sca, b * scb, pa + rot

    def pix2sky_ellipse(self, pixel, sx, sy, theta):
        ra, dec = pix2sky(self, pixel)
        return ra, dec, sx / sca, sy / scb, theta - rot

    H.sky2pix, H.pix2sky, H.sky2pix_ellipse, H.pix2sky_ellipse = sky2pix, pix2sky, sky2pix_ellipse, pix2sky_ellipse
    try:
        yield
    finally:
        H.sky2pix, H.pix2sky, H.sky2pix_ellipse, H.pix2sky_ellipse = saved


# ------------------------------------------------------------------------------------------
# exact-correspondence cases
CODE = 1024   # data[x, y] = x * CODE + y + 1 : every finite pixel of a cut-out tells where it came from


def gen_exact_case(rng):
    rows, cols = rng.randint(12, 44), rng.randint(12, 44)
    w = {'cx': float(rows // 2 + 1) + rng.choice([0.0, 0.5, 0.25]), 'cy': float(cols // 2 + 1) + rng.choice([0.0, 0.5, 0.125]),
         'ra0': 150.0, 'dec0': -30.0, 'rot': rng.choice([0.0, 0.0, 22.5, -45.0])}
    # square pixels, or non-square ones (powers of two keep the arithmetic exact): the major axis may then span
    # fewer pixels than the minor axis
    w['scx'], w['scy'], w['sca'], w['scb'] = rng.choice([(256.0, 256.0, 256.0, 256.0)] * 2 + [
        (256.0, 512.0, 256.0, 512.0), (512.0, 256.0, 512.0, 256.0), (256.0, 512.0, 512.0, 256.0), (128.0, 256.0, 128.0, 256.0)])
    stage = rng.choice([1, 2, 3])
    nisl = rng.choice([1, 1, 2, 3, 4, 6])
    blank, rblank = [], []
    for _ in range(rng.choice([0, 0, 1, 3])):
        blank.append((rng.randrange(rows), rng.randrange(cols)))
    for _ in range(rng.choice([0, 0, 1, 2])):
        rblank.append((rng.randrange(rows), rng.randrange(cols)))
    cat = []
    uid = 0
    for isl in range(nisl):
        ncomp = rng.choice([1, 1, 1, 2, 3])
        bx, by = rng.uniform(2, rows - 3), rng.uniform(2, cols - 3)
        for j in range(ncomp):
            kind = rng.choice(['in'] * 6 + ['edge', 'off', 'blank', 'half'])
            if kind == 'in':
                px, py = bx + rng.uniform(-3, 3), by + rng.uniform(-3, 3)
            elif kind == 'edge':
                px, py = rng.choice([-0.5, -0.375, 0.0, rows - 1.0, rows - 0.5, rows - 0.625]), by
                if rng.random() < 0.5:
                    px, py = bx, rng.choice([-0.5, -0.375, 0.0, cols - 1.0, cols - 0.5, cols - 0.625])
            elif kind == 'off':
                px, py = rng.choice([-7.25, -1.0, rows + 0.0, rows + 5.5]), by
                if rng.random() < 0.5:
                    px, py = bx, rng.choice([-3.0, -0.75, cols + 0.0, cols + 9.125])
            elif kind == 'blank' and (blank or rblank):
                q = rng.choice(blank + rblank)
                px, py = q[0] + rng.choice([0.0, 0.25, -0.375]), q[1] + rng.choice([0.0, -0.25, 0.375])
            else:  # exactly half way between two pixels: round-half-even decides
                px, py = float(int(bx)) + 0.5, float(int(by)) + 0.5
            px, py = round(px * 8) / 8, round(py * 8) / 8
            fa = rng.randint(20, 112) / 8.0                      # FWHM in pixels, multiple of 1/8
            fb = fa if rng.random() < 0.15 else rng.randint(16, 112) / 8.0   # sometimes b > a, sometimes below the limit
            if rng.random() < 0.7 and fb > fa:
                fa, fb = fb, fa
            pa = rng.randint(-720, 1080) / 4.0 if rng.random() < 0.3 else rng.randint(-359, 360) / 4.0
            cat.append({
                'uuid': f'u{uid}', 'island': isl, 'source': j,
                'ra': w['ra0'] - (py + 1 - w['cy']) / w['scy'], 'dec': w['dec0'] + (px + 1 - w['cx']) / w['scx'],
                'peak_flux': rng.choice([1, -1]) * rng.randint(1, 64) / 8.0,
                'a': 3600.0 * fa / w['sca'], 'b': 3600.0 * fb / w['scb'], 'pa': pa,
                'err_ra': rng.randint(1, 64) / 1024.0, 'err_dec': rng.randint(1, 64) / 1024.0,
                'err_a': rng.randint(1, 64) / 16.0, 'err_b': rng.randint(1, 64) / 16.0, 'err_pa': rng.randint(1, 64) / 8.0,
                'flags': rng.choice([0, 0, 0, 1, 2, 4, 8, 16, 32, 64, 5]),
                'psf': (56.25, 56.25, 0.0), 'kind': kind, 'pix': (px, py)})
            # input uncertainties that are "unknown" (-1) or not uncertainties at all (0, negative): 1 source in 6
            if rng.random() < 1 / 6:
                for e in ERR_FIELDS:
                    if rng.random() < 0.5:
                        cat[-1][e] = rng.choice([-1.0, -1.0, 0.0, -0.25])
            uid += 1
    rng.shuffle(cat)
    return {'rows': rows, 'cols': cols, 'wcs': w, 'stage': stage, 'blank': blank, 'rms_blank': rblank, 'cat': cat,
            'regroup': rng.random() < 0.35, 'beam_pix': rng.choice([2.0, 4.0, 6.5])}


def write_exact_images(case, work, tag):
    rows, cols = case['rows'], case['cols']
    xx, yy = np.indices((rows, cols))
    data = (xx * CODE + yy + 1).astype(np.float64)
    for (x, y) in case['blank']:
        data[x, y] = np.nan
    rms = np.ones((rows, cols))
    for (x, y) in case['rms_blank']:
        rms[x, y] = np.nan
    bp = case['beam_pix'] / norm_wcs(case['wcs'])['sca']
    h = make_header((rows, cols), beam=(bp, bp, 0.0))
    h['BITPIX'] = -64
    paths = [os.path.join(work, f'{tag}_{k}.fits') for k in ('img', 'bkg', 'rms')]
    write_image(paths[0], data, h)
    write_image(paths[1], np.zeros((rows, cols)), h)
    write_image(paths[2], rms, h)
    return paths


def run_exact(case, work, tag='x'):
    """real priorized_fit_islands with the optimiser replaced by the identity and the WCS by the affine
    map; returns the canonical observation or raises"""
    img, bkg, rms = write_exact_images(case, work, tag)
    cat = [to_source(d) for d in case['cat']]
    with affine_wcs(case['wcs']), Recorder(identity=True, exact_consts=True) as rec:
        sf = SourceFinder(log=LOG)
        out = sf.priorized_fit_islands(img, catalogue=cat, stage=case['stage'], bkgin=bkg, rmsin=rms, cores=1,
                                       doregroup=case['regroup'], ratio=1.0, docov=False)
    return canon_exact(case, rec, out)


def F(x):
    return Fraction(float(x))


def decode_slice(fit):
    """where the data cut-out came from, read off the coordinate-coded pixel values"""
    idata = fit['idata']
    fin = np.argwhere(np.isfinite(idata))
    if len(fin) == 0:
        return None
    los = set()
    for i, j in fin:
        v = int(idata[i, j]) - 1
        los.add((v // CODE - i, v % CODE - j))
    if len(los) != 1:
        return ('inconsistent', sorted(los)[:4])
    xlo, ylo = los.pop()
    return (xlo, xlo + idata.shape[0], ylo, ylo + idata.shape[1])


def canon_exact(case, rec, out):
    obs = {'groups': rec.groups, 'vary': None, 'islands': [], 'out': [], 'dropped': []}
    varies = set()
    for k, g in enumerate(rec.groups):
        r = rec.islands.get(k)
        if r is None or r['fit'] is None:
            obs['islands'].append(None)
            continue
        fit = r['fit']
        for c in fit['comps']:
            varies.add(tuple(c[nm + '_vary'] for nm in PAR_NAMES))
        pars = [[F(c['amp']), F(c['xo']), F(c['xo_min']), F(c['xo_max']), F(c['yo']), F(c['yo_min']), F(c['yo_max']),
                 F(c['sx']), F(c['sy']), F(c['theta'])] for c in fit['comps']]
        obs['islands'].append({'box': [F(o) for o in r['offsets']], 'offset_types': r['offset_types'],
                               'slice': decode_slice(fit), 'pars': pars, 'isflags': r['isflags']})
    obs['vary'] = sorted(varies)
    for s in out:
        obs['out'].append({'ids': [int(s.island), int(s.source), uuid_int(s.uuid), int(s.flags)],
                           'vals': [F(s.ra), F(s.dec), F(s.peak_flux), F(s.a), F(s.b), F(s.pa)],
                           'errs': [F(getattr(s, e)) if np.isfinite(getattr(s, e)) else None for e in ERR_FIELDS]})
    return obs


# ------------------------------------------------------------------------------------------
# Gallina printers
def q(x):
    fr = x if isinstance(x, Fraction) else Fraction(float(x))
    return f"({fr.numerator} # {fr.denominator})"


def g_src(d):
    return ("(mkSrc " + str(uuid_int(d['uuid'])) + " " +
            " ".join(q(d[k]) for k in ('ra', 'dec', 'peak_flux', 'a', 'b', 'pa') + ERR_FIELDS) + f" {int(d['flags'])})")


def g_pixlist(ps):
    return '[' + '; '.join(f"(({x})%Z, ({y})%Z)" for x, y in ps) + ']'


def g_obs(case, groups):
    w = norm_wcs(case['wcs'])
    isl = '[' + '; '.join('[' + '; '.join(g_src(d) for d in g) + ']' for g in groups) + ']'
    im = f"(mkImage {case['rows']} {case['cols']} {g_pixlist(case['blank'])} {g_pixlist(case['rms_blank'])})"
    bp = groups[0][0]['beam'] if groups and groups[0] else (case['beam_pix'], case['beam_pix'])
    return (f"obs {q(w['cx'])} {q(w['cy'])} {q(w['scx'])} {q(w['scy'])} {q(w['sca'])} {q(w['scb'])} {q(w['ra0'])} {q(w['dec0'])} {q(w['rot'])} "
            f"{q(bp[0])} {q(bp[1])} (1 # 2) (2 # 1) {im} {case['stage']} {isl}")


def fr(p):
    return Fraction(p[0], p[1])


def canon_model(v):
    vary, fis, comps, unclipped, copies = v
    out = {'vary': tuple(vary), 'islands': [], 'out': [], 'unclipped': unclipped, 'copy_pos': copies[0], 'copy_shape': copies[1]}
    for fi in fis:
        if fi is None:
            out['islands'].append(None)
            continue
        box, sl, pars, uu = fi[1]
        out['islands'].append({'box': [fr(b) for b in box], 'slice': [fr(s) for s in sl],
                               'pars': [[fr(x) for x in c] for c in pars], 'uuids': list(uu)})
    for ids, vals, errs in comps:
        out['out'].append({'ids': list(ids), 'vals': [fr(x) for x in vals], 'errs': [fr(x) for x in errs]})
    return out


def close(a, b, rel):
    if a == b:
        return True
    if a is None or b is None:
        return False
    return abs(a - b) <= rel * max(1, abs(a), abs(b))


def compare_exact(impl, model):
    """list of differences between the observation of the real code and the model's answer"""
    diffs = []
    anyclip = any(not u for isle in model['unclipped'] for u in isle)
    rel = Fraction(1, 10 ** 13) if anyclip else 0   # a clipped limit is 0.8 * x, rounded in binary64
    if impl['vary'] and impl['vary'] != [model['vary']]:
        diffs.append(('vary flags', impl['vary'], model['vary']))
    if len(impl['islands']) != len(model['islands']):
        return diffs + [('number of islands', len(impl['islands']), len(model['islands']))]
    for k, (a, b) in enumerate(zip(impl['islands'], model['islands'])):
        if a is None and b is None:
            continue
        if a is None or b is None:
            diffs.append((f'island {k} fitted?', a is not None, b is not None))
            continue
        if a['box'] != b['box']:
            diffs.append((f'island {k} offsets', [str(x) for x in a['box']], [str(x) for x in b['box']]))
        if any(t not in ('int', 'int64', 'int32') for t in a['offset_types']):
            diffs.append((f'island {k} offsets are not integers', a['offset_types'], 'int'))
        if a['slice'] is not None and list(a['slice']) != [int(x) if x.denominator == 1 else x for x in b['slice']]:
            diffs.append((f'island {k} data cut-out (decoded from the pixel values)', list(map(str, a['slice'])), [str(x) for x in b['slice']]))
        if len(a['pars']) != len(b['pars']):
            diffs.append((f'island {k} number of components', len(a['pars']), len(b['pars'])))
        else:
            for j, (pa_, pb_) in enumerate(zip(a['pars'], b['pars'])):
                for nm, x, y in zip(('amp', 'xo', 'xo_min', 'xo_max', 'yo', 'yo_min', 'yo_max', 'sx', 'sy', 'theta'), pa_, pb_):
                    if not close(x, y, rel if nm in ('sx', 'sy') else 0):
                        diffs.append((f'island {k} component {j} {nm}', str(x), str(y)))
    if len(impl['out']) != len(model['out']):
        diffs.append(('number of output components', len(impl['out']), len(model['out'])))
    else:
        for n, (a, b) in enumerate(zip(impl['out'], model['out'])):
            if a['ids'] != b['ids']:
                diffs.append((f'output {n} (island, source, uuid, flags)', a['ids'], b['ids']))
            for nm, x, y in zip(('ra', 'dec', 'peak_flux', 'a', 'b', 'pa'), a['vals'], b['vals']):
                if not close(x, y, rel if nm in ('a', 'b') else 0):
                    diffs.append((f'output {n} {nm}', str(x), str(y)))
            for i, nm in enumerate(ERR_FIELDS):
                copied = model['copy_pos'] if i < 2 else model['copy_shape']
                if copied and a['errs'][i] != b['errs'][i]:
                    diffs.append((f'output {n} {nm} (copied from the input)', str(a['errs'][i]), str(b['errs'][i])))
    return diffs


# ------------------------------------------------------------------------------------------
# real runs on noise-free catalogue images (hypothesis validation and search oracle)
import json  # noqa: E402
import math  # noqa: E402

from astropy.table import Table  # noqa: E402

from AegeanTools import AeRes  # noqa: E402
from AegeanTools.wcs_helpers import WCSHelper  # noqa: E402

PIX = 10.0          # arcsec per pixel
BEAM = 30.0         # arcsec, circular restoring beam
TOL_FLUX = 1e-3     # 0.1 %
TOL_PIX = 0.01      # pixels
TOL_SHAPE = 1e-3    # 0.1 % on a and b when they are fitted
TOL_PA = 0.1        # degrees, elongated sources only
TOL_FIXED = 1e-6    # position "equal to the input" through the WCS round trip (pixels)
TOL_FIXED_SHAPE = 2e-5   # a, b "equal to the input": pix2sky_ellipse o sky2pix_ellipse is itself only good to ~1e-6 (C16)
TOL_FIXED_PA = 0.01      # degrees


def real_header(shape, hdr=None, crval=(150.0, -30.0)):
    """hdr = None: square 10 arcsec pixels.  hdr = {'cdelt': [CDELT1, CDELT2] (arcsec, RA axis negative), 'rot': degrees or
    None}: non-square pixels and / or a rotated PC matrix"""
    if not hdr:
        h = make_header(shape, crval=crval, cdelt=PIX / 3600, beam=(BEAM / 3600, BEAM / 3600, 0.0))
    else:
        h = make_header(shape, crval=crval, cdelt=(hdr['cdelt'][0] / 3600, hdr['cdelt'][1] / 3600),
                        beam=(BEAM / 3600, BEAM / 3600, 0.0))
        if hdr.get('rot') is not None:
            c, s = math.cos(math.radians(hdr['rot'])), math.sin(math.radians(hdr['rot']))
            h['PC1_1'], h['PC1_2'], h['PC2_1'], h['PC2_2'] = c, -s, s, c
    h['BITPIX'] = -64
    return h


NONSQUARE_HEADERS = [
    {'cdelt': [-5.0, 10.0], 'rot': None},     # |CDELT2| = 2 |CDELT1|: rows (dec) are the coarse axis
    {'cdelt': [-10.0, 5.0], 'rot': None},     # the reverse
    {'cdelt': [-10.0, 10.0], 'rot': 30.0},    # rotated PC matrix, square pixels
    {'cdelt': [-5.0, 10.0], 'rot': 30.0},     # rotated and non-square
]


def gen_real_case(rng, flavor=None, nsrc=None):
    """flavor: plain | blend | edge | reject | thin | many | nonsq"""
    flavor = flavor or rng.choice(['plain', 'plain', 'blend', 'blend', 'edge', 'reject', 'reject', 'many'])
    rows, cols = rng.randint(70, 110), rng.randint(70, 110)
    hdr = None
    if flavor == 'nonsq':
        # non-square and / or rotated pixels, mildly elongated sources along both pixel axes and obliquely: the sky major
        # axis may span fewer pixels than the minor axis
        hdr = rng.choice(NONSQUARE_HEADERS)
        rows, cols = rng.randint(150, 180), rng.randint(150, 180)
    wh = WCSHelper.from_header(real_header((rows, cols), hdr))
    n = nsrc or {'nonsq': rng.randint(1, 3), 'plain': rng.randint(1, 4), 'blend': rng.randint(2, 4), 'edge': rng.randint(1, 3), 'reject': rng.randint(2, 5),
                 'thin': rng.randint(1, 2), 'many': rng.randint(22, 30)}[flavor]
    if flavor == 'many':
        rows, cols = 200, 210
        wh = WCSHelper.from_header(real_header((rows, cols)))
    cat, nan = [], []
    taken = []

    def free_spot(margin, sep):
        for _ in range(200):
            x, y = rng.uniform(margin, rows - 1 - margin), rng.uniform(margin, cols - 1 - margin)
            if all(math.hypot(x - a, y - b) > sep for a, b in taken):
                return x, y
        return None

    def add(x, y, a, b, pa, kind, isl):
        ra, dec = wh.pix2sky([x + 1, y + 1])
        u = len(cat)
        cat.append({'uuid': f'u{u}', 'island': isl, 'source': 0, 'ra': float(ra), 'dec': float(dec),
                    'peak_flux': round(rng.choice([1, 1, 1, -1]) * rng.uniform(0.05, 5.0), 4),
                    'a': a, 'b': b, 'pa': pa, 'err_ra': rng.uniform(1e-6, 1e-4), 'err_dec': rng.uniform(1e-6, 1e-4),
                    'err_a': rng.uniform(0.01, 2), 'err_b': rng.uniform(0.01, 2), 'err_pa': rng.uniform(0.01, 5),
                    'flags': 0, 'psf': (BEAM, BEAM, 0.0), 'kind': kind, 'pix': (x, y)})
        taken.append((x, y))

    def shape_of():
        a = rng.uniform(30.0, 95.0)                          # FWHM 3 .. 9.5 pixels: cut-out widths 6 .. 17, both parities
        b = rng.uniform(max(30.0, 0.45 * a), a) if rng.random() < 0.9 else a * rng.uniform(0.93, 0.99)
        if flavor == 'thin':
            b = rng.uniform(0.3, 0.75) * min(a, BEAM)        # below 0.8 * min(a, beam)
        pa = rng.uniform(-89.0, 90.0)
        if flavor == 'nonsq':
            a = rng.uniform(55.0, 95.0)
            b = a * rng.uniform(0.62, 0.95)
            pa = rng.choice([rng.uniform(-4, 4), rng.uniform(86, 90), rng.uniform(-89.9, -86), rng.uniform(-89, 90),
                             -(hdr['rot'] or 0.0) + rng.choice([0.0, 90.0]) + rng.uniform(-3, 3)])
            pa = ((pa + 90.0) % 180.0) - 90.0 if not -90.0 < pa <= 90.0 else pa
        return round(a, 3), round(b, 3), round(pa, 2)

    isl = 0
    while len(cat) < n:
        a, b, pa = shape_of()
        if flavor == 'edge' and rng.random() < 0.7:
            x, y = rng.choice([(rng.uniform(-0.4, 2.0), rng.uniform(10, cols - 10)), (rng.uniform(rows - 3.0, rows - 0.6), rng.uniform(10, cols - 10)),
                               (rng.uniform(10, rows - 10), rng.uniform(-0.4, 2.0)), (rng.uniform(10, rows - 10), rng.uniform(cols - 3.0, cols - 0.6)),
                               (rng.uniform(-0.4, 1.5), rng.uniform(-0.4, 1.5))])
            if any(math.hypot(x - p, y - q) < 30 for p, q in taken):
                continue
            add(x, y, a, b, pa, 'edge', isl)
            isl += 1
            continue
        spot = free_spot(30, 75) if flavor == 'nonsq' else free_spot(14, 34)
        if spot is None:
            break
        x, y = spot
        add(x, y, a, b, pa, 'in', isl)
        if flavor == 'blend' and len(cat) < n:
            a2, b2, pa2 = shape_of()
            sep = rng.uniform(0.9, 1.8) * 0.5 * (a + a2) / PIX     # 0.9 .. 1.8 mean FWHM apart
            ang = rng.uniform(0, 2 * math.pi)
            add(x + sep * math.cos(ang), y + sep * math.sin(ang), a2, b2, pa2, 'in', isl)
        isl += 1
    if flavor == 'reject':
        k = rng.randint(1, 2)
        for _ in range(k):
            a, b, pa = shape_of()
            kind = rng.choice(['off', 'off-far', 'nan', 'nan'])
            if kind == 'off':
                x, y = rng.choice([(-rng.uniform(0.7, 9.0), rng.uniform(0, cols)), (rows - 0.3 + rng.uniform(0.0, 9.0), rng.uniform(0, cols)),
                                   (rng.uniform(0, rows), -rng.uniform(0.7, 9.0)), (rng.uniform(0, rows), cols - 0.3 + rng.uniform(0, 9.0))])
                add(x, y, a, b, pa, 'off', isl)
            elif kind == 'off-far':
                add(0, 0, a, b, pa, 'off', isl)
                cat[-1]['ra'], cat[-1]['dec'] = rng.choice([(150.0, 20.0), (330.0, 30.0), (151.5, -30.2), (10.0, -89.0)])
                cat[-1]['pix'] = None
            else:
                spot = free_spot(10, 26)
                if spot is None:
                    continue
                x, y = spot
                add(x, y, a, b, pa, 'nan', isl)
                cx, cy = int(round(x)), int(round(y))
                h = rng.choice([0, 1, 2])
                nan.append((max(0, cx - h), min(rows, cx + h + 1), max(0, cy - h), min(cols, cy + h + 1)))
            isl += 1
    if flavor == 'reject':
        # a rejected source listed first in the island of an accepted one (matters when regroup is off)
        rej = [d for d in cat if d['kind'] in ('off', 'nan')]
        okk = [d for d in cat if d['kind'] == 'in']
        if rej and okk and rng.random() < 0.6:
            r_, t_ = rng.choice(rej), rng.choice(okk)
            for d in cat:
                if d['island'] == t_['island']:
                    d['source'] += 1
            r_['island'], r_['source'] = t_['island'], 0
    rng.shuffle(cat)
    opts = {'stage': rng.choice([1, 2, 3]), 'regroup': rng.random() < 0.6, 'ratio': rng.choice([None, 1.0]),
            'psf_cols': rng.random() < 0.8 or flavor == 'nonsq', 'input': rng.choice(['list', 'list', 'csv', 'fits', 'vot']),
            'docov': rng.random() < 0.7 and flavor != 'many'}
    return {'flavor': flavor, 'rows': rows, 'cols': cols, 'hdr': hdr, 'cat': cat, 'nan': nan, 'opts': opts}


def expected_accept(case, wh):
    """the accept rule of the property text: nearest pixel on the image and not blank"""
    rows, cols = case['rows'], case['cols']
    blank = np.zeros((rows, cols), dtype=bool)
    for (x0, x1, y0, y1) in case['nan']:
        blank[x0:x1, y0:y1] = True
    acc = {}
    for d in case['cat']:
        p = wh.sky2pix([d['ra'], d['dec']])
        if not np.all(np.isfinite(p)):
            acc[d['uuid']] = False
            continue
        x, y = int(round(p[0] - 1)), int(round(p[1] - 1))
        acc[d['uuid']] = bool(0 <= x < rows and 0 <= y < cols and not blank[x, y])
    return acc, blank


def render(case, wh, acc, blank):
    """exact noise-free model of the accepted sources with the conventions of the code: sky2pix_ellipse,
    FITS 1-based -> array index by -1, FWHM -> sigma by FWHM2CC (float64, no truncation of the wings)"""
    rows, cols = case['rows'], case['cols']
    xx, yy = np.indices((rows, cols))
    xx, yy = xx.astype(float), yy.astype(float)
    img = np.zeros((rows, cols))
    for d in case['cat']:
        if not acc[d['uuid']]:
            continue
        xo, yo, sx, sy, th = wh.sky2pix_ellipse([d['ra'], d['dec']], d['a'] / 3600, d['b'] / 3600, d['pa'])
        img += fitting.elliptical_gaussian(xx, yy, d['peak_flux'], xo - 1, yo - 1, sx * sfm.FWHM2CC, sy * sfm.FWHM2CC, th)
    img[blank] = np.nan
    return img


def write_catalogue(case, work, tag, cat):
    kind = case['opts']['input']
    psf = case['opts']['psf_cols']
    if kind == 'list':
        out = []
        for d in cat:
            d = dict(d)
            if not psf:
                d['psf'] = None
            out.append(to_source(d))
        return out
    cols = ['island', 'source', 'ra', 'dec', 'peak_flux', 'err_peak_flux', 'a', 'err_a', 'b', 'err_b', 'pa', 'err_pa',
            'err_ra', 'err_dec', 'flags', 'uuid']
    rowsd = {c: [d.get(c, 0.0) for d in cat] for c in cols}
    if psf:
        for i, c in enumerate(('psf_a', 'psf_b', 'psf_pa')):
            rowsd[c] = [d['psf'][i] for d in cat]
    t = Table(rowsd)
    path = os.path.join(work, f'{tag}_cat.{kind}')
    if kind == 'vot':
        t.write(path, format='votable', overwrite=True)
    elif kind == 'fits':
        t.write(path, format='fits', overwrite=True)
    else:
        t.write(path, format='ascii.csv', overwrite=True)
    return path


def ustr(u):
    if isinstance(u, bytes):
        u = u.decode()
    return str(u).strip()


def run_priorized(case, work, tag, cat, wh, img, record=False):
    h = real_header((case['rows'], case['cols']), case.get('hdr'))
    path = os.path.join(work, f'{tag}.fits')
    write_image(path, img, h)
    o = case['opts']
    catalogue = write_catalogue(case, work, tag, cat)
    sf = SourceFinder(log=LOG)
    kw = dict(catalogue=catalogue, stage=o['stage'], rms=1e-3, bkg=0.0, cores=1, doregroup=o['regroup'], ratio=o['ratio'],
              docov=o['docov'])
    if record:
        with Recorder(identity=False) as rec:
            out = sf.priorized_fit_islands(path, **kw)
        return out, rec
    return sf.priorized_fit_islands(path, **kw), None


def check_real(case, work, tag='r', compare_without_rejected=True):
    """returns (problems, stats); problems = list of strings, empty when the property holds on this case"""
    wh = WCSHelper.from_header(real_header((case['rows'], case['cols']), case.get('hdr')))
    acc, blank = expected_accept(case, wh)
    img = render(case, wh, acc, blank)
    stats = {'accepted': sum(acc.values()), 'rejected': len(acc) - sum(acc.values()), 'fixed_kept': 0, 'fixed_moved': []}
    problems = []
    try:
        out, rec = run_priorized(case, work, tag, case['cat'], wh, img, record=True)
    except Exception as e:  # noqa
        return [f'priorized_fit_islands raised {type(e).__name__}: {e}'], stats
    # library hypothesis: parameters that do not vary come back unchanged; every component comes back
    for inum, r in rec.islands.items():
        fit = r['fit']
        if fit is None or 'after' not in fit:
            continue
        if len(fit['after']) != len(fit['comps']):
            stats['fixed_moved'].append((inum, 'components', len(fit['comps']), len(fit['after'])))
        for b, a in zip(fit['comps'], fit['after']):
            for nm in PAR_NAMES:
                if not b[nm + '_vary']:
                    if b[nm] == a[nm] or (math.isnan(b[nm]) and math.isnan(a[nm])):
                        stats['fixed_kept'] += 1
                    else:
                        stats['fixed_moved'].append((inum, nm, b[nm], a[nm]))
    by_uuid = {d['uuid']: d for d in case['cat']}
    stage = case['opts']['stage']
    # documented meaning of the stages: 1 frees the amplitude, 2 adds the position, 3 adds the shape
    want = {'amp': True, 'xo': stage >= 2, 'yo': stage >= 2, 'sx': stage >= 3, 'sy': stage >= 3, 'theta': stage >= 3}
    for inum, r in sorted(rec.islands.items()):
        fit = r['fit']
        if fit is None:
            continue
        bad = sorted({nm for c in fit['comps'] for nm in PAR_NAMES if c[nm + '_vary'] != want[nm]})
        if bad:
            problems.append(f'stage {stage}: parameters {bad} are ' + ', '.join(
                f"{nm} {'free' if not want[nm] else 'fixed'}" for nm in bad) + f' in island {inum}, against the documented stages')
            break
    seen = set()
    keys = []
    for s in out:
        u = ustr(s.uuid)
        keys.append((s.island, s.source))
        if u not in by_uuid:
            problems.append(f'output uuid {u!r} is not an input uuid')
            continue
        if u in seen:
            problems.append(f'two output components carry uuid {u}')
        seen.add(u)
        d = by_uuid[u]
        if not acc[u]:
            problems.append(f'source {u} ({d["kind"]}) is outside the image / on a blank pixel but was measured')
            continue
        if not s.flags & 64:
            problems.append(f'{u}: PRIORIZED flag not set (flags={s.flags})')
        pin = wh.sky2pix([d['ra'], d['dec']])
        pout = wh.sky2pix([s.ra, s.dec])
        dpix = math.hypot(pout[0] - pin[0], pout[1] - pin[1])
        if not abs(s.peak_flux - d['peak_flux']) <= TOL_FLUX * abs(d['peak_flux']):
            problems.append(f'{u}: peak flux {s.peak_flux!r} vs catalogue {d["peak_flux"]!r} '
                            f'(rel. error {abs(s.peak_flux - d["peak_flux"]) / abs(d["peak_flux"]):.3g} > 0.1 %) at stage {stage}')
        if stage < 2:
            if not dpix <= TOL_FIXED:
                problems.append(f'{u}: position not freed at stage 1 but moved by {dpix:.3g} pixels')
            if (s.err_ra, s.err_dec) != (d['err_ra'], d['err_dec']):
                problems.append(f'{u}: err_ra/err_dec {s.err_ra!r},{s.err_dec!r} are not the input uncertainties')
            if not s.flags & 4:
                problems.append(f'{u}: FIXED2PSF flag not set at stage 1')
        elif not dpix <= TOL_PIX:
            problems.append(f'{u}: fitted position is {dpix:.3g} pixels from the catalogue position (> 0.01) at stage {stage}')
        elong = d['a'] > 1.05 * d['b']
        if stage < 3:
            if not (abs(s.a - d['a']) <= TOL_FIXED_SHAPE * d['a'] and abs(s.b - d['b']) <= TOL_FIXED_SHAPE * d['b']):
                problems.append(f'{u}: shape not freed at stage {stage} but a,b = {s.a!r},{s.b!r} vs input {d["a"]!r},{d["b"]!r}')
            if elong and not pa_diff(s.pa, d['pa']) <= TOL_FIXED_PA:
                problems.append(f'{u}: pa not freed at stage {stage} but {s.pa!r} vs input {d["pa"]!r}')
            if (s.err_a, s.err_b, s.err_pa) != (d['err_a'], d['err_b'], d['err_pa']):
                problems.append(f'{u}: err_a/err_b/err_pa are not the input uncertainties')
        else:
            if not (abs(s.a - d['a']) <= TOL_SHAPE * d['a'] and abs(s.b - d['b']) <= TOL_SHAPE * d['b']):
                problems.append(f'{u}: fitted shape a,b = {s.a:.5f},{s.b:.5f} vs catalogue {d["a"]},{d["b"]} (> 0.1 %) at stage 3')
            if elong and d['a'] > 1.2 * d['b'] and not pa_diff(s.pa, d['pa']) <= TOL_PA:
                problems.append(f'{u}: fitted pa {s.pa:.4f} vs catalogue {d["pa"]} at stage 3')
    if keys != sorted(keys):
        problems.append('output is not ordered by (island, source)')
    if len(set(keys)) != len(keys):
        problems.append('duplicate (island, source) labels in the output')
    missing = [u for u, a in acc.items() if a and u not in seen]
    if missing:
        problems.append(f'accepted sources without an output component: {missing[:5]}')
    stats['out'] = len(out)
    # rejected sources must not change the results of the others
    if compare_without_rejected and not problems and stats['rejected']:
        cat2 = [d for d in case['cat'] if acc[d['uuid']]]
        if cat2:
            try:
                out2, _ = run_priorized(case, work, tag + 'b', cat2, wh, img)
            except Exception as e:  # noqa
                return [f'priorized_fit_islands raised {type(e).__name__}: {e} on the catalogue without the rejected sources'], stats
            m1 = {ustr(s.uuid): s for s in out}
            m2 = {ustr(s.uuid): s for s in out2}
            if set(m1) != set(m2):
                problems.append(f'removing the rejected sources changes which sources are measured: {sorted(set(m1) ^ set(m2))[:5]}')
            else:
                same_groups = partition(out) == partition(out2)
                rel = 1e-7 if same_groups else TOL_FLUX
                for u in m1:
                    a_, b_ = m1[u], m2[u]
                    for f in ('peak_flux', 'a', 'b'):
                        va, vb = getattr(a_, f), getattr(b_, f)
                        if not abs(va - vb) <= rel * max(abs(va), abs(vb)):
                            problems.append(f'{u}: {f} = {va!r} with the rejected sources in the catalogue, {vb!r} without')
                    p1, p2 = wh.sky2pix([a_.ra, a_.dec]), wh.sky2pix([b_.ra, b_.dec])
                    if not math.hypot(p1[0] - p2[0], p1[1] - p2[1]) <= (1e-6 if same_groups else TOL_PIX):
                        problems.append(f'{u}: position differs with / without the rejected sources')
                stats['skip_compared'] = len(m1)
    return problems, stats


def partition(out):
    g = {}
    for s in out:
        g.setdefault(s.island, set()).add(ustr(s.uuid))
    return sorted(sorted(v) for v in g.values())


def pa_diff(a, b):
    d = abs(a - b) % 180.0
    return min(d, 180.0 - d)


def shrink_real(case, work, still_fails):
    """drop sources / NaN patches / options while the failure persists"""
    cur = json.loads(json.dumps(case))
    changed = True
    while changed:
        changed = False
        for i in range(len(cur['cat'])):
            cand = json.loads(json.dumps(cur))
            del cand['cat'][i]
            if cand['cat'] and still_fails(cand):
                cur, changed = cand, True
                break
        if changed:
            continue
        for i in range(len(cur['nan'])):
            cand = json.loads(json.dumps(cur))
            del cand['nan'][i]
            if still_fails(cand):
                cur, changed = cand, True
                break
    for k, v in (('input', 'list'), ('docov', False), ('regroup', False)):
        cand = json.loads(json.dumps(cur))
        cand['opts'][k] = v
        if cand['opts'] != cur['opts'] and still_fails(cand):
            cur = cand
    return cur


def validate_wcs(rng, n):
    """library hypotheses of C05_fixed_roundtrip on the real WCSHelper: pix2sky inverts sky2pix; the ellipse
    conversion at a pixel position within half a sigma of the catalogue position inverts sky2pix_ellipse"""
    worst = {'pos_deg': 0.0, 'ab_rel': 0.0, 'pa_deg': 0.0, 'ab_rel_shifted': 0.0, 'pa_deg_shifted': 0.0}
    for _ in range(n):
        rows, cols = rng.randint(70, 210), rng.randint(70, 210)
        wh = WCSHelper.from_header(real_header((rows, cols), rng.choice([None, None] + NONSQUARE_HEADERS)))
        x, y = rng.uniform(-1, rows), rng.uniform(-1, cols)
        ra, dec = wh.pix2sky([x + 1, y + 1])
        p = wh.sky2pix([ra, dec])
        ra2, dec2 = wh.pix2sky(p)
        worst['pos_deg'] = max(worst['pos_deg'], abs(ra2 - ra) * math.cos(math.radians(dec)), abs(dec2 - dec))
        a, b, pa = rng.uniform(30, 120), rng.uniform(12, 30), rng.uniform(-89, 90)
        b = min(a, b * rng.uniform(1, 3))
        _, _, sx, sy, th = wh.sky2pix_ellipse([ra, dec], a / 3600, b / 3600, pa)
        for shifted in (False, True):
            q = list(p)
            if shifted:
                q = [p[0] + rng.uniform(-0.5, 0.5) * sx * sfm.FWHM2CC, p[1] + rng.uniform(-0.5, 0.5) * sy * sfm.FWHM2CC]
            _, _, a2, b2, pa2 = wh.pix2sky_ellipse(q, sx, sy, th)
            k = '_shifted' if shifted else ''
            worst['ab_rel' + k] = max(worst['ab_rel' + k], abs(a2 * 3600 - a) / a, abs(b2 * 3600 - b) / b)
            if a > 1.2 * b:
                worst['pa_deg' + k] = max(worst['pa_deg' + k], pa_diff(pa2, pa))
    worst['kf_kc'] = abs(sfm.FWHM2CC * sfm.CC2FHWM - 1.0)
    return worst
