"""C03 (extension) - the order of catalogue rows: models.ComponentSource / IslandSource rich comparisons, sorted(sources) of
priorized_fit_islands, island_itergen.   Hooked into the C03 check (tools/harness/c03.py: EXTRA_TARGETS, run_extra, search_extra,
replay dispatch on kind 'order').

  theorems  : Props/C03x.v (axiom-free) - obligations of the C03 check, with the Print Assumptions gate
  tie       : translator point CatOrder (tools/points_c03x.py) + exact correspondence: Python's sorted() on lists of real
              ComponentSource objects (unique (island, source) pairs, negative and large numbers, one island with many components,
              reversed / shuffled / already sorted input) against Model.CatOrder.py_sorted (vm_compute), plus the property oracle
              "ascending permutation"; all six rich comparisons of two components against the lexicographic order (sorted() only
              asks __lt__, but min / max / bisect users ask the others); sorted() of IslandSource lists; island_itergen groups.
"""
import json

import vlib

EXTRA_TARGETS = ['Props/C03x.vo']
GEN_EXTRA = ['CatOrder']
IMPORTS = ("From Coq Require Import ZArith List.\nFrom Aegean Require Import Gen.CatOrder Model.CatOrder.\n"
           "Import ListNotations.\nOpen Scope Z_scope.\n")
TRUSTED_EXTRA = [
    'translator point CatOrder (tools/points_c03x.py): comparison operators of ComponentSource.__lt__ / IslandSource.__lt__, the '
    'position of sorted(sources) in priorized_fit_islands, sorted + reverse + pop in island_itergen; fails closed',
    'Model/CatOrder.v: a row is its (island, source) pair; py_sorted = insertion by __lt__, tied to Python\'s sorted() by exact '
    'correspondence and proved to be the unique ascending permutation (so the sorting algorithm does not matter)',
]
ASSUMPTIONS_EXTRA = ['order theorems: the (island, source) pairs of the rows are unique (a clause of C03, checked on every real catalogue)']


def gen_keys(rng, k):
    n = rng.choice([0, 1, 2, 3, 5, 8, 13, 40])
    pool = set()
    while len(pool) < n:
        i = rng.choice([0, 0, 1, 2, 3, 19, 20, 21, 40, -1, 10 ** 6]) if k % 3 else rng.randint(-3, 30)
        pool.add((i, rng.randint(0, 6) if rng.random() < 0.8 else rng.randint(-2, 60)))
    keys = list(pool)
    how = k % 4
    if how == 0:
        rng.shuffle(keys)
    elif how == 1:
        keys.sort()
    elif how == 2:
        keys.sort(reverse=True)
    else:
        keys.sort(key=lambda t: (t[1], -t[0]))
    return keys


def impl_sorted(keys):
    from AegeanTools.models import ComponentSource
    objs = []
    for i, s in keys:
        c = ComponentSource()
        c.island, c.source = i, s
        objs.append(c)
    return [(int(c.island), int(c.source)) for c in sorted(objs)]


def klit(keys):
    return '[' + '; '.join(f'({vlib.zlit(i)}, {vlib.zlit(s)})' for i, s in keys) + ']'


def order_problem(keys):
    try:
        got = impl_sorted(keys)
    except Exception as e:  # noqa
        return f'sorted() of components raised {type(e).__name__}: {e}', None
    exp = sorted(keys)
    if got != exp:
        return f'sorted() of components {keys} gives {got}, the ascending (island, source) order is {exp}', got
    return None, got


def comparison_problems():
    """the six rich comparisons of two components / two islands against the lexicographic order"""
    import operator
    from AegeanTools.models import ComponentSource, IslandSource
    bad = []
    vals = [(0, 0), (0, 1), (1, 0), (1, 1), (2, -1), (-1, 5)]
    for a in vals:
        for b in vals:
            ca, cb = ComponentSource(), ComponentSource()
            ca.island, ca.source = a
            cb.island, cb.source = b
            for nm, op in (('lt', operator.lt), ('le', operator.le), ('gt', operator.gt), ('ge', operator.ge), ('eq', operator.eq),
                           ('ne', operator.ne)):
                if bool(op(ca, cb)) != op(a, b):
                    bad.append(f'ComponentSource{a} {nm} ComponentSource{b} is {bool(op(ca, cb))}')
    for a in (-1, 0, 1, 7):
        for b in (-1, 0, 1, 7):
            ia, ib = IslandSource(), IslandSource()
            ia.island, ib.island = a, b
            for nm, op in (('lt', operator.lt), ('le', operator.le), ('gt', operator.gt), ('ge', operator.ge), ('eq', operator.eq),
                           ('ne', operator.ne)):
                if bool(op(ia, ib)) != op(a, b):
                    bad.append(f'IslandSource({a}) {nm} IslandSource({b}) is {bool(op(ia, ib))}')
    return bad


def itergen_problem(keys):
    from AegeanTools.models import ComponentSource, island_itergen
    objs = []
    for i, s in keys:
        c = ComponentSource()
        c.island, c.source = i, s
        objs.append(c)
    groups = [[(int(c.island), int(c.source)) for c in g] for g in island_itergen(objs)]
    exp = []
    for i in sorted({k[0] for k in keys}):
        exp.append(sorted(k for k in keys if k[0] == i))
    if [sorted(g) for g in groups] != exp:
        return f'island_itergen of {keys} yields {groups}, expected one group per island in increasing order: {exp}'
    return None


def run_extra(ctx, model_ok=True):
    names = vlib.theorems_of('C03x')
    if model_ok:
        for n in names:
            ctx.oblige(f'theorem {n}', True)
        ax, out = vlib.print_assumptions(ctx, 'C03x', names)
        if ax is None:
            ctx.oblige('Print Assumptions (C03x) runs', False, out)
        else:
            for n in names:
                badax = ax.get(n, ['<missing>'])
                ctx.axioms[n] = badax
                ctx.oblige(f'axioms of {n}: none', not badax, badax)
    ctx.rule += (' EXTENSION (row order): lists of 0-40 real ComponentSource objects with unique (island, source) pairs in shuffled / '
                 'sorted / reversed / source-major order through sorted() vs Model.CatOrder.py_sorted; distinct = distinct list; '
                 'non-trivial = at least 2 rows.')
    rng = ctx.rng
    n = 60 if ctx.tier == 'quick' else 600
    exprs, impls, nbad = [], [], 0
    for k in range(n):
        keys = gen_keys(rng, k)
        ctx.case(key='order' + json.dumps(keys) if len(keys) > 1 else None, bucket='row order')
        msg, got = order_problem(keys)
        if msg is None and keys and k % 3 == 0:
            msg = itergen_problem(keys)
        if msg:
            nbad += 1
            if nbad <= 3:
                ctx.mismatch('order of catalogue rows', {'rows': keys}, impl=msg, is_violation={'kind': 'order', 'rows': keys, 'what': msg})
            continue
        exprs.append(f'py_sorted {klit(keys)}')
        impls.append((keys, got))
    ctx.oblige(f'row order: sorted() of {n} component lists is the ascending (island, source) permutation; island_itergen yields the '
               'islands in increasing order', nbad == 0, f'{nbad} lists differ')
    cb = comparison_problems()
    ctx.oblige('rich comparisons of ComponentSource / IslandSource are the lexicographic / numeric order', not cb, cb[:5])
    if cb:
        ctx.mismatch('rich comparisons', {'first': cb[0]}, impl=cb[:5], is_violation={'kind': 'order', 'rows': [[0, 0], [0, 1]], 'what': cb[0]})
    if model_ok and exprs:
        vals, err = vlib.coq_eval(ctx, IMPORTS, exprs, shard=100, workers=4)
        if vals is None:
            ctx.oblige('model evaluation (vm_compute) of Model.CatOrder.py_sorted', False, err)
        else:
            mb = 0
            for v, (keys, got) in zip(vals, impls):
                if [tuple(x) for x in v] != got:
                    mb += 1
                    if mb <= 3:
                        ctx.mismatch('sorted() vs Model.CatOrder.py_sorted', {'rows': keys}, impl=got, model=v)
            ctx.oblige(f'correspondence: {len(vals)} lists, sorted() equal to Model.CatOrder.py_sorted', mb == 0, f'{mb} differ')


def search_extra(ctx):
    rng = ctx.rng
    for k in range(200):
        keys = gen_keys(rng, k)
        msg, _ = order_problem(keys)
        if msg is None and keys:
            msg = itergen_problem(keys)
        if msg:
            return {'kind': 'order', 'rows': keys, 'what': msg}
    cb = comparison_problems()
    if cb:
        return {'kind': 'order', 'rows': [[0, 0], [0, 1]], 'what': cb[0]}
    return None


def replay_extra(ctx, fi):
    keys = [tuple(k) for k in fi['rows']]
    msg, got = order_problem(keys)
    if msg is None:
        msg = itergen_problem(keys) if keys else None
    if msg is None:
        cb = comparison_problems()
        msg = cb[0] if cb else None
    print('implementation:', msg or 'property holds on these rows')
    return 1 if msg else 0
