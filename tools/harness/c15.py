"""C15 - compress then expand restores shape, WCS and grid-node values.

Three layers on every run:
 1. property oracle directly on the implementation (fits_tools.compress / expand, SR6 CLI, load_image_band,
    the Aegean aux-image loader) - gives concrete failing inputs;
 2. correspondence of the implementation with the Coq model (Eval vm_compute of Model.FitsTools.run_roundtrip):
    compressed data + cards and expanded data + cards, exactly on the float-exact class, 1e-6 otherwise;
 3. validation of the library hypothesis Interp.rgi_spec (and of the acceptance test Interp.axis_ok) against the
    real scipy RegularGridInterpolator, both with rational arithmetic in Python and through the executable
    instance Interp.bilinear evaluated in Coq.
"""
import io
import logging
import os
import time
import warnings
from fractions import Fraction

import numpy as np

import vlib
from fixtures import make_header

GEN = ['FitsTools']
LEVEL = 'proof'
TRUSTED = [
    'Coq 8.16.1 kernel + vm_compute; all C15 theorems are axiom-free (Print Assumptions: closed under the global context)',
    'translator tools/points_c15.py (Z back end + a Q back end for CRPIX/CDELT/CD; int(a/b) read as Z.quot): nx/ny/'
    'residual arithmetic, np.empty shape, slice limits and strides, the CDELT/CD if-elif chains, CRPIX formulas, BN_ cards '
    'written / read / deleted, node coordinates; the four decimation assignments, the RegularGridInterpolator call and '
    "load_image_band's `if compressed: expand` are recognised by shape (fail closed)",
    'hand-written skeleton Model/FitsTools.v (numpy slicing semantics incl. index -1 and shape agreement, astropy rewriting '
    'NAXISn when .data is assigned, order of header updates, None paths), tied by the correspondence run',
    'scipy RegularGridInterpolator: NOT assumed - theorems are implications from Interp.rgi_spec, which is validated '
    'against scipy on every run; its acceptance checks are modelled by Interp.axis_ok and validated too',
    'astropy.io.fits reading/writing of cards and float32 arrays; numpy',
]
ASSUMPTIONS = [
    'pixel values and cards are read as exact rationals: float32 storage and float64 arithmetic are outside the theorems. '
    'The correspondence is exact on integer-valued images in [-512, 512] with power-of-two factors and dyadic CRPIX/CDELT '
    '(every float operation is exact there) and to 1e-6 of the largest sample otherwise',
    'int(lcx/factor) is read as truncated integer division: exact for |values| < 2^26',
    'the input is a well-formed 2-D FITS image: shape >= 2 x 2 (np.squeeze would drop a length-1 axis), NAXISn agree '
    'with the array, CRPIX1/2 and one of CDELTn / CDn_n present; finite pixel values (NaN/inf are not modelled)',
    'nothing is claimed for the last partial cell (the copied last row/column is placed at nx*f, not at rows-1), as in the property',
]
IMPORTS = ("From Coq Require Import ZArith QArith List String.\n"
           "From Aegean Require Import Lib.Keywords Lib.Interp Gen.FitsTools Model.FitsTools.\n"
           "Import ListNotations.\nOpen Scope string_scope.\nOpen Scope Z_scope.\n")
BN = ['BN_CFAC', 'BN_NPX1', 'BN_NPX2', 'BN_RPX1', 'BN_RPX2']
IKEYS = ['NAXIS1', 'NAXIS2'] + BN
RKEYS = ['CRPIX1', 'CRPIX2', 'CDELT1', 'CDELT2', 'CD1_1', 'CD2_2', 'CD1_2', 'CD2_1']
POW2 = [1, 2, 4, 8, 16, 32, 64]

logging.getLogger().setLevel(logging.CRITICAL)


# ------------------------------------------------------------------------------------------ cases
def gen_case(rng, rows=None, cols=None, factor=None, hdr=None, mode=None, img=None, exact=None, small=False):
    hi = 14 if (small and rng.random() < 0.7) else 40      # the quick tier prefers small shapes (model printing cost)
    rows = rows or rng.randint(2, hi)
    cols = cols or rng.randint(2, hi)
    if factor is None:
        factor = rng.choice(POW2) if rng.random() < 0.5 else rng.randint(1, 64)
    hdr = hdr or rng.choice(['cdelt', 'cd', 'cd_rot'])
    mode = mode or rng.choice(['hdu', 'file', 'file', 'cli'])
    img = img or rng.choice(['int', 'int', 'bane', 'affine', 'real'])
    pow2 = factor in POW2
    if img == 'int':
        den = 1
        data = [[rng.randint(-512, 512) for _ in range(cols)] for _ in range(rows)]
    elif img == 'real':
        den = rng.choice([4, 1024])
        data = [[rng.randint(-512 * den, 512 * den) for _ in range(cols)] for _ in range(rows)]
    elif img == 'affine':
        den = 1
        a, b, c = rng.randint(-64, 64), rng.randint(-5, 5), rng.randint(-5, 5)
        data = [[a + b * r + c * k for k in range(cols)] for r in range(rows)]
    else:  # 'bane': bilinear between nodes of the factor grid, node values multiples of f^2 => integer everywhere
        den = 1
        nr, nc = rows // factor + 2, cols // factor + 2
        nodes = [[rng.randint(-60, 60) for _ in range(nc)] for _ in range(nr)]
        f = factor
        data = []
        for r in range(rows):
            i, u = divmod(r, f)
            row = []
            for k in range(cols):
                j, v = divmod(k, f)
                row.append((f - u) * (f - v) * nodes[i][j] + (f - u) * v * nodes[i][j + 1]
                           + u * (f - v) * nodes[i + 1][j] + u * v * nodes[i + 1][j + 1])
            data.append(row)
    is_exact = pow2 and den == 1 and max(abs(x) for r in data for x in r) <= 512 if exact is None else exact
    if pow2:
        crpix = [Fraction(rng.randint(-200, 200), 2), Fraction(rng.randint(-200, 200), 2)]
        cd = [Fraction(-rng.randint(1, 64), 4096), Fraction(rng.randint(1, 64), 4096)]
    else:
        crpix = [Fraction(rng.randint(-2000, 2000), 16), Fraction(rng.randint(-2000, 2000), 16)]
        cd = [Fraction(-rng.randint(1, 3600), 3600 * 8), Fraction(rng.randint(1, 3600), 3600 * 8)]
        cd = [Fraction(float(x)) for x in cd]      # the binary64 value that the header will hold
    # cd_rot: a full CD matrix (rotated / skewed image): off-diagonal terms that are non-zero (dyadic fractions of the diagonal ones)
    off = [cd[0] * Fraction(rng.choice([1, -1, 3]), rng.choice([2, 4, 16])), cd[1] * Fraction(rng.choice([1, -1, -3]), rng.choice([2, 8]))] \
        if hdr == 'cd_rot' else [Fraction(0), Fraction(0)]
    off = [Fraction(float(x)) for x in off]
    return {'rows': rows, 'cols': cols, 'factor': factor, 'hdr': hdr, 'mode': mode, 'img': img, 'den': den,
            'data': data, 'crpix': [str(x) for x in crpix], 'cd': [str(x) for x in cd], 'off': [str(x) for x in off], 'exact': bool(is_exact)}


def case_label(case):
    return {k: case[k] for k in ('rows', 'cols', 'factor', 'hdr', 'mode', 'img', 'exact')}


def bucket_of(case):
    f, r, c = case['factor'], case['rows'], case['cols']
    if f == 1:
        cl = 'f=1'
    elif f > max(r, c):
        cl = 'f>size'
    elif f > min(r, c):
        cl = 'f>one-axis'
    elif r % f == 0 and c % f == 0:
        cl = 'multiple'
    elif r % f == 1 or c % f == 1:
        cl = 'residual-1'
    else:
        cl = 'residual'
    return f"{cl}/{'pow2' if f in POW2 else 'odd'}/{case['hdr']}/{case['mode']}"


def build_hdul(case):
    from astropy.io import fits
    rows, cols = case['rows'], case['cols']
    data = (np.array(case['data'], dtype=np.float64) / case['den']).astype(np.float32)
    crpix = [float(Fraction(x)) for x in case['crpix']]
    cd = [float(Fraction(x)) for x in case['cd']]
    h = make_header((rows, cols), crpix=crpix, cdelt=cd)
    if case['hdr'] in ('cd', 'cd_rot'):
        off = [float(Fraction(x)) for x in case.get('off', ['0', '0'])]
        del h['CDELT1'], h['CDELT2']
        h['CD1_1'], h['CD1_2'], h['CD2_1'], h['CD2_2'] = cd[0], off[0], off[1], cd[1]
    return fits.HDUList([fits.PrimaryHDU(data=data, header=h)]), data


def snap(hdu):
    """(shape, float64 copy of the data, watched cards) of an HDU"""
    h = hdu.header
    d = np.array(hdu.data, dtype=np.float64)
    return {'shape': list(d.shape), 'data': d,
            'ikw': {k: h[k] for k in IKEYS if k in h}, 'rkw': {k: float(h[k]) for k in RKEYS if k in h}}


def run_impl(work, case, tag='x'):
    """compress then expand through the requested entry points; returns dict(c=, e=, orig=, extra=[..]) or
    dict(error=...)"""
    from astropy.io import fits
    from AegeanTools import fits_tools
    hl, data = build_hdul(case)
    orig = snap(hl[0])
    f = case['factor']
    out = {'orig': orig, 'extra': []}
    fin, fc, fe = (os.path.join(work, f'{tag}_{n}.fits') for n in ('in', 'c', 'e'))
    with warnings.catch_warnings():
        warnings.simplefilter('ignore')
        try:
            if case['mode'] == 'hdu':
                c = fits_tools.compress(hl, f)
                if c is None:
                    return {'error': 'compress returned None', **out}
                out['c'] = snap(c[0])
                e = fits_tools.expand(c)
                if e is None:
                    return {'error': 'expand returned None', **out}
                out['e'] = snap(e[0])
            else:
                hl.writeto(fin, overwrite=True)
                if case['mode'] == 'cli':
                    from AegeanTools.CLI import SR6
                    rc = SR6.main([fin, '-f', str(f), '-o', fc])
                    if rc not in (0, None) or not os.path.exists(fc):
                        return {'error': f'SR6 compress returned {rc} / no output file', **out}
                    rc = SR6.main([fc, '-x', '-o', fe])
                    if rc not in (0, None) or not os.path.exists(fe):
                        return {'error': f'SR6 expand returned {rc} / no output file', **out}
                else:
                    if fits_tools.compress(fin, f, fc) is None:
                        return {'error': 'compress returned None', **out}
                    if fits_tools.expand(fc, fe) is None:
                        return {'error': 'expand returned None', **out}
                with fits.open(fc) as a:
                    out['c'] = snap(a[0])
                with fits.open(fe) as a:
                    out['e'] = snap(a[0])
                # transparent expansion on load
                d, h = fits_tools.load_image_band(fc)
                if list(d.shape) != orig['shape'] or h['NAXIS1'] != case['cols'] or h['NAXIS2'] != case['rows']:
                    out['extra'].append(f'load_image_band on the compressed file returns shape {list(d.shape)}, NAXIS '
                                        f'({h["NAXIS2"]}, {h["NAXIS1"]}) for an image of shape {orig["shape"]}')
                elif not np.array_equal(np.array(d, dtype=np.float64), out['e']['data']):
                    out['extra'].append('load_image_band on the compressed file differs from expand()')
                elif any(k in h for k in BN):
                    out['extra'].append('load_image_band on the compressed file keeps BN_ cards')
                # a band of it
                d2, h2 = fits_tools.load_image_band(fc, band=(1, 2))
                lo, hi = case['rows'] // 2, case['rows']
                if list(d2.shape) != [hi - lo, case['cols']] or \
                        not np.array_equal(np.array(d2, dtype=np.float64), out['e']['data'][lo:hi]):
                    out['extra'].append('load_image_band(band=(1,2)) on the compressed file is not the lower half of expand()')
                # the Aegean loader accepts it as bkg/rms for an image of the original shape
                try:
                    aux = _finder()._load_aux_image(data, fc)
                    if aux.shape != data.shape:
                        out['extra'].append(f'Aegean aux loader returns shape {aux.shape} for image {data.shape}')
                except Exception as ex:  # noqa
                    out['extra'].append(f'Aegean aux loader rejects the compressed file: {type(ex).__name__}: {ex}')
        except Exception as ex:  # noqa
            return {'error': f'{type(ex).__name__}: {ex}', **out}
        finally:
            for p in (fin, fc, fe):
                try:
                    os.remove(p)
                except OSError:
                    pass
    return out


_SF = []


def _finder():
    if not _SF:
        from AegeanTools.source_finder import SourceFinder
        lg = logging.getLogger('c15-quiet')
        lg.addHandler(logging.StreamHandler(io.StringIO()))
        lg.propagate = False
        _SF.append(SourceFinder(log=lg))
    return _SF[0]


# ------------------------------------------------------------------------------------------ oracle
def oracle(case, res):
    """property C15 on the implementation's own outputs; None or a message"""
    if 'error' in res:
        return f'compress/expand does not succeed: {res["error"]}'
    o, c, e = res['orig'], res['c'], res['e']
    f, rows, cols = case['factor'], case['rows'], case['cols']
    if e['shape'] != [rows, cols]:
        return f'expanded shape {e["shape"]} != original {[rows, cols]}'
    if e['ikw'].get('NAXIS1') != cols or e['ikw'].get('NAXIS2') != rows:
        return f'expanded NAXIS1/2 = {e["ikw"].get("NAXIS1")}/{e["ikw"].get("NAXIS2")} != {cols}/{rows}'
    left = [k for k in BN if k in e['ikw']]
    if left:
        return f'compression cards {left} still present after expand'
    missing = [k for k in BN if k not in c['ikw']]
    if missing:
        return f'compressed header lacks {missing}'
    if set(e['rkw']) != set(o['rkw']):
        return f'WCS cards changed: {sorted(e["rkw"])} vs {sorted(o["rkw"])}'
    for k, v in o['rkw'].items():
        w = e['rkw'][k]
        if (w != v) if case['exact'] else (abs(w - v) > 1e-9 * max(abs(v), 1e-300) and abs(w - v) > 1e-12):
            return f'{k} not restored: {w!r} vs {v!r}'
    od, cd, ed = o['data'], c['data'], e['data']
    if not np.all(np.isfinite(ed)):
        return 'expanded image has non-finite pixels'
    if not np.array_equal(ed[::f, ::f], od[::f, ::f]):
        bad = np.argwhere(ed[::f, ::f] != od[::f, ::f])[0]
        return (f'grid node ({bad[0] * f}, {bad[1] * f}) not reproduced: {ed[bad[0] * f, bad[1] * f]!r} vs '
                f'{od[bad[0] * f, bad[1] * f]!r}')
    tol = 0.0 if case['exact'] else 1e-6 * max(1.0, float(np.max(np.abs(cd))))
    if ed.min() < cd.min() - tol or ed.max() > cd.max() + tol:
        return f'expanded range [{ed.min()!r}, {ed.max()!r}] leaves the compressed range [{cd.min()!r}, {cd.max()!r}]'
    if case['img'] in ('bane', 'affine'):
        # complete cells: pixels up to the last node whose index is inside the image
        R = ((rows - 1) // f) * f + 1
        C = ((cols - 1) // f) * f + 1
        # float arithmetic is exact for power-of-two factors (weights m/2^k, integer values < 2^19); otherwise 1e-6
        ctol = 0.0 if f in POW2 else 1e-6 * max(1.0, float(np.max(np.abs(od))))
        diff = np.abs(ed[:R, :C] - od[:R, :C])
        if diff.max() > ctol:
            bad = np.unravel_index(np.argmax(diff), diff.shape)
            return (f'{case["img"]} image not reproduced on a complete cell at ({bad[0]}, {bad[1]}): '
                    f'{ed[bad[0], bad[1]]!r} vs {od[bad[0], bad[1]]!r}')
    if res['extra']:
        return res['extra'][0]
    return None


# ------------------------------------------------------------------------------------------ model side
def q_lit(fr):
    fr = Fraction(fr)
    n = f'({fr.numerator})' if fr.numerator < 0 else str(fr.numerator)
    return f'({n} # {fr.denominator})'


def model_expr(case):
    rows, cols = case['rows'], case['cols']
    data = '[' + '; '.join(vlib.zlist(r) for r in case['data']) + ']'
    ik = f'[("NAXIS", 2); ("NAXIS1", {cols}); ("NAXIS2", {rows})]'
    cr = [Fraction(x) for x in case['crpix']]
    cd = [Fraction(x) for x in case['cd']]
    if case['hdr'] in ('cd', 'cd_rot'):
        off = [Fraction(x) for x in case.get('off', ['0', '0'])]
        rk = [('CRPIX1', cr[0]), ('CRPIX2', cr[1]), ('CD1_1', cd[0]), ('CD1_2', off[0]), ('CD2_1', off[1]), ('CD2_2', cd[1])]
    else:
        rk = [('CRPIX1', cr[0]), ('CRPIX2', cr[1]), ('CDELT1', cd[0]), ('CDELT2', cd[1])]
    rks = '[' + '; '.join(f'("{k}", {q_lit(v)})' for k, v in rk) + ']'
    return f'run_roundtrip (mk_image {case["den"]} {data} {ik} ({rks})%Q) {vlib.zlit(case["factor"])}'


def compare_snap(case, name, got, mv):
    """implementation snapshot vs one rendered model image; list of difference messages"""
    if mv is None:
        return [f'model: {name} fails (None), implementation succeeds']
    _, val = mv
    mrows, mcols, mpix, mik, mrk = val
    out = []
    if got['shape'] != [mrows, mcols]:
        return [f'{name} shape {got["shape"]} vs model {[mrows, mcols]}']
    mik = {k: v for k, v in mik if k in IKEYS}
    if mik != {k: int(v) for k, v in got['ikw'].items()}:
        out.append(f'{name} integer cards {got["ikw"]} vs model {mik}')
    mrk = {k: Fraction(n, d) for k, (n, d) in mrk if k in RKEYS}
    if set(mrk) != set(got['rkw']):
        out.append(f'{name} WCS cards {sorted(got["rkw"])} vs model {sorted(mrk)}')
    else:
        for k, v in mrk.items():
            w = got['rkw'][k]
            if case['exact']:
                ok = Fraction(w) == v
            else:
                ok = abs(w - float(v)) <= 1e-9 * abs(float(v)) + 1e-12
            if not ok:
                out.append(f'{name} {k} = {w!r} vs model {float(v)!r}')
    if case['exact']:
        mp = np.array([[n / d for n, d in row] for row in mpix], dtype=np.float64)
        # exact: small dyadic rationals convert to float64 exactly
        exact_ok = all(Fraction(float(got['data'][i, j])) == Fraction(n, d)
                       for i, row in enumerate(mpix) for j, (n, d) in enumerate(row))
        if not exact_ok:
            bad = np.argwhere(got['data'] != mp)
            b = bad[0] if len(bad) else (0, 0)
            out.append(f'{name} pixel ({b[0]}, {b[1]}) = {got["data"][b[0], b[1]]!r} vs model {mp[b[0], b[1]]!r} (exact class)')
    else:
        mp = np.array([[n / d for n, d in row] for row in mpix], dtype=np.float64)
        tol = 1e-6 * max(1.0, float(np.max(np.abs(mp))))
        if np.max(np.abs(mp - got['data'])) > tol:
            b = np.unravel_index(np.argmax(np.abs(mp - got['data'])), mp.shape)
            out.append(f'{name} pixel ({b[0]}, {b[1]}) = {got["data"][b]!r} vs model {mp[b]!r} (tolerance {tol:g})')
    return out


# ------------------------------------------------------------------------------------------ library hypothesis
def cell_formula(rn, cn, v, i, j, x, y):
    tx = Fraction(x - rn[i], rn[i + 1] - rn[i])
    ty = Fraction(y - cn[j], cn[j + 1] - cn[j])
    return ((1 - tx) * (1 - ty) * v[i][j] + (1 - tx) * ty * v[i][j + 1]
            + tx * (1 - ty) * v[i + 1][j] + tx * ty * v[i + 1][j + 1])


def gen_grid(rng, uniform):
    nr, nc = rng.randint(2, 7), rng.randint(2, 7)
    if uniform:
        s, t = rng.choice([1, 2, 4, 8]), rng.choice([1, 2, 4, 8])
        rn = [k * s for k in range(nr)]
        cn = [k * t for k in range(nc)]
    else:
        rn = [rng.randint(-5, 0)]
        for _ in range(nr - 1):
            rn.append(rn[-1] + rng.choice([1, 2, 3, 4, 5, 7, 8]))
        cn = [rng.randint(-5, 0)]
        for _ in range(nc - 1):
            cn.append(cn[-1] + rng.choice([1, 2, 3, 4, 6, 8]))
    v = [[rng.randint(-100, 100) for _ in range(nc)] for _ in range(nr)]
    pts = set()
    for _ in range(12):
        pts.add((rng.randint(2 * rn[0], 2 * rn[-1]), rng.randint(2 * cn[0], 2 * cn[-1])))   # numerators over 2
    pts.add((2 * rn[0], 2 * cn[0]))
    pts.add((2 * rn[-1], 2 * cn[-1]))
    pts.add((2 * rn[rng.randrange(nr)], 2 * cn[rng.randrange(nc)]))
    return rn, cn, v, sorted(pts)


def validate_rgi(ctx, model_ok):
    from scipy.interpolate import RegularGridInterpolator
    rng = ctx.rng
    n = 40 if ctx.tier == 'quick' else 400
    nbad, npts, exprs, impls = 0, 0, [], []
    first = None
    for g in range(n):
        uniform = g % 2 == 0
        rn, cn, v, pts = gen_grid(rng, uniform)
        r = RegularGridInterpolator((np.array(rn, float), np.array(cn, float)), np.array(v, float))
        xs = np.array([[p[0] / 2.0, p[1] / 2.0] for p in pts])
        got = r(xs)
        for (a, b), gv in zip(pts, got):
            x, y = Fraction(a, 2), Fraction(b, 2)
            cells = [(i, j) for i in range(len(rn) - 1) for j in range(len(cn) - 1)
                     if rn[i] <= x <= rn[i + 1] and cn[j] <= y <= cn[j + 1]]
            assert cells
            for (i, j) in cells:        # rgi_spec: the value is the cell formula for EVERY containing cell
                want = cell_formula(rn, cn, v, i, j, x, y)
                ok = (Fraction(float(gv)) == want) if uniform else abs(float(gv) - float(want)) <= 1e-11 * (1 + abs(float(want)))
                npts += 1
                if not ok:
                    nbad += 1
                    first = first or {'rows': rn, 'cols': cn, 'values': v, 'point': [float(x), float(y)], 'cell': [i, j],
                                      'scipy': float(gv), 'contract': float(want)}
        if g < (20 if ctx.tier == 'quick' else 100):
            exprs.append(f'rgi_probe {vlib.zlist(rn)} {vlib.zlist(cn)} [{"; ".join(vlib.zlist(r_) for r_ in v)}] 2 '
                         f'[{"; ".join(f"({vlib.zlit(a)}, {vlib.zlit(b)})" for a, b in pts)}]')
            impls.append((uniform, [float(z) for z in got]))
    ctx.oblige(f'library hypothesis: RegularGridInterpolator = bilinear cell formula on every containing cell '
               f'(Interp.rgi_spec), {npts} (point, cell) pairs on {n} grids', nbad == 0, first)
    ctx.hyp['scipy RegularGridInterpolator(linear) satisfies Interp.rgi_spec'] = npts
    # acceptance: strictly ascending axes and in-bounds points, else ValueError
    acc_bad, acc_n, aexprs, aimpl = None, 0, [], []
    for _ in range(30 if ctx.tier == 'quick' else 200):
        m = rng.randint(2, 6)
        ax = [0]
        for _ in range(m - 1):
            ax.append(ax[-1] + rng.choice([0, 1, 1, 2, 3, -1] if rng.random() < 0.4 else [1, 2, 3]))
        lo, hi = rng.randint(-2, 1), ax[-1] + rng.randint(-2, 2)
        if hi < lo:
            hi = lo
        strictly = all(b > a for a, b in zip(ax, ax[1:]))
        want = strictly and ax[0] <= lo and hi <= ax[-1]
        try:
            r = RegularGridInterpolator((np.array(ax, float), np.array([0.0, 1.0])), np.zeros((m, 2)))
            r(np.array([[float(lo), 0.5], [float(hi), 0.5]]))
            got = True
        except ValueError:
            got = False
        descending = all(b < a for a, b in zip(ax, ax[1:]))
        if descending:
            continue     # scipy flips strictly descending axes; the model (and expand, factor >= 1) never produces them
        acc_n += 1
        if got != want and acc_bad is None:
            acc_bad = {'axis': ax, 'lo': lo, 'hi': hi, 'scipy_accepts': got, 'model_accepts': want}
        aexprs.append(f'axis_probe {vlib.zlist(ax)} 1 {vlib.zlit(lo)} {vlib.zlit(hi)}')
        aimpl.append(got)
    ctx.oblige(f'library hypothesis: RegularGridInterpolator raises exactly when an axis is not strictly ascending or a '
               f'point is outside it (Interp.axis_ok), {acc_n} axes', acc_bad is None, acc_bad)
    ctx.hyp['scipy RegularGridInterpolator acceptance = Interp.axis_ok'] = acc_n
    if model_ok:
        vals, err = vlib.coq_eval(ctx, IMPORTS, exprs + aexprs, shard=40)
        if vals is None:
            ctx.oblige('model evaluation (vm_compute) of Interp.bilinear / axis_ok probes', False, err)
            return
        bad = None
        for k, (mv, (uniform, iv)) in enumerate(zip(vals[:len(exprs)], impls)):
            for (nn, dd), z in zip(mv, iv):
                ok = (Fraction(z) == Fraction(nn, dd)) if uniform else abs(z - nn / dd) <= 1e-11 * (1 + abs(z))
                if not ok and bad is None:
                    bad = {'expr': exprs[k][:300], 'scipy': z, 'model': nn / dd}
        ctx.oblige(f'correspondence: Interp.bilinear (Coq) = scipy RegularGridInterpolator on {len(exprs)} grids',
                   bad is None, bad)
        bad = None
        for ex, mv, iv in zip(aexprs, vals[len(exprs):], aimpl):
            if bool(mv) != iv and bad is None:
                bad = {'expr': ex, 'scipy_accepts': iv, 'model': mv}
        ctx.oblige(f'correspondence: Interp.axis_ok (Coq) = scipy acceptance on {len(aexprs)} axes', bad is None, bad)


# ------------------------------------------------------------------------------------------ driver
def cases(ctx):
    rng = ctx.rng
    quick = ctx.tier == 'quick'
    out = []
    shapes = [(2, 2), (2, 3), (3, 2), (5, 7), (8, 8), (9, 8), (8, 9), (16, 17), (40, 40), (39, 40), (33, 2)]
    if quick:
        shapes = [(2, 2), (2, 3), (3, 2), (5, 7), (8, 8), (9, 8), (8, 9), (16, 17), (40, 37), (33, 2)]
    facs = [1, 2, 3, 4, 5, 8, 9, 16, 40, 64]
    k = 0
    for (r, c) in shapes:
        for f in facs:
            if quick and (k % 2) and (r, c) not in ((2, 2), (5, 7), (9, 8)):
                k += 1
                continue
            out.append(gen_case(rng, r, c, f, hdr=['cdelt', 'cd', 'cd_rot'][k % 3], mode=['hdu', 'file', 'cli', 'file'][k % 4],
                                img=['int', 'bane', 'affine', 'real', 'int'][k % 5]))
            k += 1
    for _ in range(110 if quick else 2500):
        out.append(gen_case(rng, small=quick))
    if not quick:
        for r in range(2, 13):
            for c in (2, 5, 12):
                for f in range(1, 14):
                    out.append(gen_case(rng, r, c, f))
    return out


def run(ctx, model_ok=True):
    ctx.rule = ('cases = (rows, cols in 2..40, factor in 1..64 (half of them powers of two), CDELT or CD header, entry point '
                'HDUList / file / SR6 CLI, image kind: random integers, BANE-like (bilinear between grid nodes), affine, '
                'random dyadic reals). Each case: compress then expand through the entry point (+ load_image_band whole and '
                'banded and the Aegean aux loader on the compressed file) checked by the property oracle and compared with '
                'the Coq model (compressed and expanded data and cards). distinct = distinct (rows, cols, factor, header, '
                'entry point, image kind); non-trivial = factor >= 2.')
    t0 = time.time()
    cs = cases(ctx)
    exprs, metas, results = [], [], []
    nviol = 0
    for n, case in enumerate(cs):
        res = run_impl(ctx.work, case, tag=str(n % 7))
        msg = oracle(case, res)
        key = tuple(case_label(case).values()) if case['factor'] >= 2 else None
        ctx.case(key=key, bucket=bucket_of(case), sample=case_label(case) if len(ctx.samples) < 4 else None)
        if msg:
            nviol += 1
            if nviol <= 3:
                small = shrink(ctx, case, msg)
                ctx.mismatch('property oracle on compress/expand', case_label(small[0]), impl=small[1],
                             is_violation={'case': small[0], 'what': small[1]})
            continue
        exprs.append(model_expr(case))
        metas.append(case)
        results.append(res)
    ctx.oblige(f'property oracle: {len(cs)} round trips on the implementation (shape, NAXIS, WCS cards, BN_ cards removed, '
               f'node values, range, complete cells of BANE-like/affine images, load_image_band, Aegean loader)', nviol == 0,
               f'{nviol} cases violate the property')
    ctx.notes.append(f'{len(cs)} implementation round trips in {time.time() - t0:.1f}s')
    ctx.hyp['astropy: assigning hdu.data rewrites NAXIS1/NAXIS2 (checked through the compressed cards)'] = len(exprs)
    validate_rgi(ctx, model_ok)
    if model_ok and exprs:
        t1 = time.time()
        # interleave large and small images so that the shards are balanced; one shard per worker in the quick tier
        order = sorted(range(len(exprs)), key=lambda k: -metas[k]['rows'] * metas[k]['cols'])
        nsh = 16 if ctx.tier == 'quick' else max(16, len(exprs) // 40)
        order = [k for s in range(nsh) for k in order[s::nsh]]
        exprs, metas, results = [exprs[k] for k in order], [metas[k] for k in order], [results[k] for k in order]
        vals, err = vlib.coq_eval(ctx, IMPORTS, exprs, shard=-(-len(exprs) // nsh), workers=16)
        if vals is None:
            ctx.oblige('model evaluation (vm_compute) of Model.FitsTools.run_roundtrip', False, err)
            return
        nbad = 0
        for v, case, res in zip(vals, metas, results):
            mc, me = v
            diffs = compare_snap(case, 'compressed', res['c'], mc) + compare_snap(case, 'expanded', res['e'], me)
            if diffs:
                nbad += 1
                if nbad <= 3:
                    ctx.mismatch('compress/expand vs Model.FitsTools.run_roundtrip', case_label(case),
                                 impl=diffs[:3], model='see message')
        nex = sum(1 for c in metas if c['exact'])
        ctx.oblige(f'correspondence: {len(vals)} round trips, compressed + expanded pixels and cards equal to the model '
                   f'({nex} exactly, {len(vals) - nex} within 1e-6)', nbad == 0, f'{nbad} cases differ')
        ctx.traces = len(vals)
        ctx.notes.append(f'model evaluation took {time.time() - t1:.1f}s')
    ctx.extra['exhaustive'] = False


def shrink(ctx, case, msg):
    """smaller shape / integer image / HDU entry point while the oracle still fails"""
    rng = ctx.rng
    cur, curmsg = case, msg
    for _ in range(3):
        changed = False
        cands = []
        if cur['mode'] != 'hdu' and 'load_image_band' not in curmsg and 'Aegean' not in curmsg:
            cands.append(dict(mode='hdu'))
        f = cur['factor']
        for r in sorted({2, 3, f, f + 1, 2 * f + 1, cur['rows'] // 2}):
            if 2 <= r < cur['rows']:
                cands.append(dict(rows=r))
        for c in sorted({2, 3, f, f + 1, 2 * f + 1, cur['cols'] // 2}):
            if 2 <= c < cur['cols']:
                cands.append(dict(cols=c))
        for ch in cands:
            kw = dict(rows=cur['rows'], cols=cur['cols'], factor=cur['factor'], hdr=cur['hdr'], mode=cur['mode'], img=cur['img'])
            kw.update(ch)
            new = gen_case(rng, **kw)
            m = oracle(new, run_impl(ctx.work, new, tag='s'))
            if m:
                cur, curmsg, changed = new, m, True
                break
        if not changed:
            break
    return cur, curmsg


def search(ctx):
    """structured stream on the implementation alone: small shapes x factors x header x entry point"""
    rng = ctx.rng
    t0 = time.time()
    for mode in ('hdu', 'file', 'cli'):
        for hdr in ('cd_rot', 'cdelt', 'cd'):
            for f in (1, 2, 3, 4, 5, 7, 8, 9, 13, 16, 64):
                for r in range(2, 12):
                    for c in (2, 3, 7, 10):
                        for img in ('int', 'bane'):
                            case = gen_case(rng, r, c, f, hdr=hdr, mode=mode, img=img)
                            msg = oracle(case, run_impl(ctx.work, case, tag='q'))
                            if msg:
                                small = shrink(ctx, case, msg)
                                return {'case': small[0], 'what': small[1]}
                if time.time() - t0 > 200:
                    return None
    return None


def replay(ctx, obj):
    fi = obj.get('failing_input')
    if not fi:
        print('replay file has no concrete input; broken obligations were:')
        for b in obj.get('broken', []):
            print('  ', b.get('what'), str(b.get('detail', b.get('case', '')))[:400])
        return 1
    case = fi['case']
    msg = oracle(case, run_impl(ctx.work, case, tag='r'))
    print('input:', case_label(case))
    print('implementation:', msg or 'property holds on this input')
    return 1 if msg else 0
