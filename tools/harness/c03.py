"""C03 - every output catalogue is internally consistent and reproducible."""
import json
import math
import os
import subprocess
import time
from fractions import Fraction

import numpy as np

import vlib
from harness import c03_common as cc

from harness import c03x

GEN = ['CatRows', 'CatRowsFlux'] + c03x.GEN_EXTRA
EXTRA_TARGETS = ['Refuted/C03_istart.vo', 'Refuted/C03_errors.vo'] + c03x.EXTRA_TARGETS
LEVEL = 'proof'
TRUSTED = [
    'Coq 8.16.1 kernel + vm_compute; every C03 theorem except the two int_flux ones is axiom-free; C03_intflux_* use the '
    'standard-library axioms of the reals only',
    'translator tools/points_c03.py (fail-closed): flags.py constants and every flag update site; isle_num counter; group_size, '
    'batch test, istart expression, enumerate(group, start=istart); component counters of estimate_lmfit_parinfo and _refit_islands '
    '(skips before any params.add, i += 1 last); result_to_components statement order, RA wrap, int_flux expression, island summary; '
    'fix_shape / pa_limit loops; the guards, masking and sqerr terms of fitting.errors (new_errors must stay unused); '
    'dec2dms / dec2hms scale and divmod chain',
    'hand-written skeleton Model/CatalogRows.v (batching loop, numbering, fuelled pa_limit, decision table over value classes, '
    'row_ok / cat_ok / islands_ok) tied by exact correspondence with the real finder, fitting.errors, pa_limit, fix_shape, dec2dms',
    'outside the model, validated on every run: lmfit / MINPACK (fits complete, stderr values), astropy WCS (pix2sky), '
    'scipy.ndimage.label (detection oracle), sklearn DBSCAN via cluster.regroup_dbscan (grouping when regroup is on), numpy, uuid4',
    'binary64 rounding is not modelled: catalogue values are read as exact rationals; pa += 180 on |pa| >= 2^53 would not '
    'terminate in floats although it does over Q',
    'command line glue AegeanTools/CLI/aegean.py (argument parsing, defaults, option -> keyword mapping, argument order, output '
    'naming) is not modelled in Coq; it is tied on every run by tools/harness/cli_cases.py: aegean command lines (blind with --table in csv / fits / vot, --seedclip != --floodclip, --maxsummits, --island, --beam, --forcerms / --forcebkg, --cores; --priorized 1-3 with --input, --ratio 1 / 1.25 / none, --noregroup, --regroup-eps, --nocov) run in subprocesses and '
    'the files they write equal, bit for bit (tables apart from uuids), those of the library call that --help and the docstrings promise',
]
ASSUMPTIONS = [
    'valid image: 2-D float image with BMAJ/BMIN, celestial WCS (SIN / TAN; CDELT, rotated CDi_j or PCi_j + CDELT), constant rms '
    '0.01 and zero background passed explicitly; sources within ~13 degrees of the reference pixel (the 1 % int_flux clause is '
    'validated there; beyond ~17 degrees it is the recorded wide-field finding)',
    'innerclip 5, outerclip 4, cores=1, docov=True, max_summits=None; priorized input catalogues are outputs of the blind finder '
    'on the same image plus sources outside the image',
    'errors decision table: representatives 0.05 / 1e7 (huge) / -1 / -2 / 0 / nan / +-inf / None per stderr class; the class of a '
    'propagated sky value is supplied by the harness (0 for zero offsets, nan for a huge offset, positive otherwise) and zero / '
    'non-zero position stderr are not mixed; peak, a, b are never 0 (division by zero is outside the table)',
    'float comparisons in the correspondence are exact only on integer / dyadic inputs (pa_limit, fix_shape, dec2dms at n/64)',
]
TRUSTED = TRUSTED + c03x.TRUSTED_EXTRA
ASSUMPTIONS = ASSUMPTIONS + c03x.ASSUMPTIONS_EXTRA
KNOWN = {
    # key -> substring that must appear in a `finding: property=C03 ...` line of known_findings.txt to record the finding
    'widefield': 'int_flux wide-field',
}
# fixed regression images: 3-pixel islands whose degenerate fits gave err_ra/err_dec = nan (huge pixel stderr) and
# err_peak_flux = nan before fitting.errors masked every uncertainty that is not positive and finite
TINY = [
    ('tiny_nan1', {'seed': 34191504, 'ncell': 3, 'cell': 24, 'nsrc': 7, 'kinds': ['neg', 'long', 'neg', 'long', 'long', 'iso', 'iso', 'px2', 'faintpair'],
                   'crval': (150.0, 45.0), 'edge': True, 'nanblock': True, 'beam': (0.0125, 0.008333333333333333, 30.0)}),
    ('tiny_nan2', {'seed': 238381661, 'ncell': 3, 'cell': 28, 'nsrc': 3, 'kinds': ['px3', 'px3', 'px2', 'px2', 'px2', 'pair', 'posneg', 'long', 'pair'],
                   'crval': (359.99, 0.0), 'edge': True, 'nanblock': True, 'beam': (0.0125, 0.008333333333333333, 30.0)}),
]
FLAG_NOTFIT, FLAG_FITERR, FLAG_WCSERR = 16, 2, 32


# ------------------------------------------------------------------------------------------
def specs_for(ctx):
    rng = ctx.rng
    quick = ctx.tier == 'quick'
    out = [
        ('empty', {'seed': rng.randrange(1 << 30), 'ncell': 2, 'cell': 24, 'nsrc': 0}),
        ('single', {'seed': rng.randrange(1 << 30), 'ncell': 1, 'cell': 32, 'nsrc': 1, 'kinds': ['iso'], 'noise': False}),
        ('mosaic60', {'seed': rng.randrange(1 << 30), 'ncell': 8, 'cell': 24, 'nsrc': 60, 'edge': True, 'nanblock': True}),
        ('mosaic45', {'seed': rng.randrange(1 << 30), 'ncell': 7, 'cell': 24, 'nsrc': 45, 'crval': (0.02, 60.0),
                      'kinds': ['pair', 'neg', 'px3', 'iso', 'long', 'px1', 'posneg', 'bright', 'px2', 'faintpair']}),
        ('nonsquare', {'seed': rng.randrange(1 << 30), 'ncell': 4, 'cell': 24, 'nsrc': 16, 'cdelt': (-10.0 / 3600, 15.0 / 3600)}),
    ]
    out += TINY
    # rotated pixel grids (CDi_j matrix, PCi_j + CDELT) in a small field, and medium fields (sources 3-13 degrees from the
    # reference pixel, below the ~17 degrees of the recorded wide-field finding) with elongated sources: the 1 % int_flux
    # clause and every other row clause apply strictly
    med = {'ncell': 4, 'cell': 24, 'nsrc': 16, 'kinds': cc.ELONGATED}
    out += [
        ('cdrot', {'seed': rng.randrange(1 << 30), 'ncell': 3, 'cell': 24, 'nsrc': 9, 'kinds': cc.ELONGATED,
                   'rot': rng.choice([-1, 1]) * rng.randint(10, 40), 'wcs': 'CD'}),
        ('cdrot_mixed', {'seed': rng.randrange(1 << 30), 'ncell': 3, 'cell': 24, 'nsrc': 9, 'rot': rng.choice([-1, 1]) * rng.randint(10, 40),
                         'wcs': 'CD', 'crval': (200.0, 45.0), 'beam': (45.0 / 3600, 30.0 / 3600, 30.0)}),
        ('pcrot', {'seed': rng.randrange(1 << 30), 'ncell': 3, 'cell': 24, 'nsrc': 9, 'kinds': cc.ELONGATED,
                   'rot': rng.choice([-1, 1]) * rng.randint(10, 40), 'wcs': 'PC'}),
        # reference RA written as a negative angle (legal FITS: CRVAL1 = -5 for 355): wcslib then returns negative right ascensions
        ('negra', {'seed': rng.randrange(1 << 30), 'ncell': 3, 'cell': 24, 'nsrc': 9, 'crval': (rng.choice([-5.0, -0.01, -180.0]), -30.0)}),
        ('medSIN', dict(med, seed=rng.randrange(1 << 30), cdelt=0.25, beam=(0.75, 0.75, 0.0), proj='SIN')),
        ('medTAN', dict(med, seed=rng.randrange(1 << 30), cdelt=0.2, beam=(0.6, 0.6, 0.0), proj='TAN', crval=(20.0, 50.0))),
    ]
    for k in range(4 if quick else 40):
        kinds = [rng.choice(cc.KINDS) for _ in range(9)]
        out.append((f'rand{k}', {'seed': rng.randrange(1 << 30), 'ncell': 3, 'cell': rng.choice([20, 24, 28]), 'nsrc': rng.randint(1, 9),
                                 'kinds': kinds, 'crval': (rng.choice([10.0, 150.0, 359.99, 200.0, -5.0]), rng.choice([-70.0, -30.0, 0.0, 45.0, 80.0])),
                                 'edge': rng.random() < 0.3, 'nanblock': rng.random() < 0.3,
                                 'beam': rng.choice([(30.0 / 3600, 30.0 / 3600, 0.0), (45.0 / 3600, 30.0 / 3600, 30.0)])}))
    if not quick:
        for k in range(3):
            out.append((f'big{k}', {'seed': rng.randrange(1 << 30), 'ncell': 9, 'cell': 24, 'nsrc': 70 + k, 'edge': True,
                                    'nanblock': k == 1}))
    # an image cube (NAXIS = 3), read with the default cube_index: "complete on every valid image" (appended last so that the
    # random stream of the specs above is unchanged)
    out.append(('cube', {'seed': rng.randrange(1 << 30), 'ncell': 3, 'cell': 24, 'nsrc': 7, 'cube': 2}))
    return out


def outside_sources(comps):
    """two catalogue entries that lie outside the image: a new island and an extra component of an existing one"""
    if not comps:
        return []
    base = comps[0]
    far = dict(base)
    far.update(island=max(c['island'] for c in comps) + 5, source=0, ra=(cc.unf(base['ra']) + 40.0) % 360.0,
               uuid='00000000-0000-4000-8000-000000000001')
    extra = dict(comps[-1])
    extra.update(source=max(c['source'] for c in comps if c['island'] == extra['island']) + 1,
                 dec=max(-89.0, cc.unf(extra['dec']) - 35.0), uuid='00000000-0000-4000-8000-000000000002')
    return [far, extra]


def usable_mask(path, cat):
    """which catalogue sources _refit_islands can use: inside the image on a finite pixel"""
    from astropy.io import fits
    from AegeanTools.wcs_helpers import WCSHelper
    with fits.open(path) as hd:
        data = np.squeeze(hd[0].data)
        while data.ndim > 2:      # a cube: the finder reads the first plane when cube_index is not given
            data = data[0]
        wh = WCSHelper.from_header(hd[0].header)
    out = []
    for c in cat:
        x, y = wh.sky2pix([cc.unf(c['ra']), cc.unf(c['dec'])])
        if not (math.isfinite(x) and math.isfinite(y)):
            out.append(False)
            continue
        xi, yi = int(round(x - 1)), int(round(y - 1))
        out.append(0 <= xi < data.shape[0] and 0 <= yi < data.shape[1] and bool(np.isfinite(data[xi, yi])))
    return out


def groups_without_regroup(cat):
    """island_itergen: one group per island number of the input catalogue, in increasing order"""
    ids = sorted({c['island'] for c in cat})
    return [[k for k, c in sorted(enumerate(cat), key=lambda kc: (kc[1]['island'], kc[1]['source'])) if c['island'] == i]
            for i in ids]


def row_msgs(rows, fails):
    out = []
    for r, f in zip(rows, fails):
        if f:
            out.append({'island': r['island'], 'source': r['source'], 'clauses': [cc.CLAUSES[k] for k in f],
                        'values': {k: r[k] for k in ('ra', 'dec', 'a', 'b', 'pa', 'flags', 'int_flux', 'peak_flux', 'psf_a', 'psf_b',
                                                     'ra_str', 'dec_str') + tuple(cc.ERR_NAMES)}})
    return out


def is_err2(r, f):
    """signature of the recorded finding: only the uncertainty clause fails and every offending value is exactly -2"""
    if f != [6]:
        return False
    badv = [cc.unf(r[e]) for e in cc.ERR_NAMES if not (isinstance(cc.unf(r[e]), float) and math.isfinite(cc.unf(r[e]))
                                                       and (cc.unf(r[e]) > 0 or cc.unf(r[e]) == -1.0))]
    return bool(badv) and all(v == -2.0 for v in badv)


def is_errnan(r, f):
    """signature of the second recorded finding (degenerate fits of tiny islands): only the uncertainty clause fails and the
    offending values are NaN in err_ra / err_dec (pixel stderr so large that xo + err_xo has no sky coordinate) or in
    err_peak_flux (NaN amplitude stderr copied unguarded)"""
    if f != [6]:
        return False
    badn = [e for e in cc.ERR_NAMES if not (isinstance(cc.unf(r[e]), float) and math.isfinite(cc.unf(r[e]))
                                            and (cc.unf(r[e]) > 0 or cc.unf(r[e]) == -1.0))]
    return bool(badn) and set(badn) <= {'err_ra', 'err_dec', 'err_peak_flux'} and all(math.isnan(cc.unf(r[e])) for e in badn)


class Run:
    """collects catalogues for the Coq pass"""

    def __init__(self, ctx):
        self.ctx = ctx
        self.cats = []       # (label, rows, oracle report, job)
        self.isl = []        # (label, comps, isles, det)
        self.flagcases = []  # (label, island, npix, mindim, ncomp, flags)
        self.numcases = []   # (label, model groups, real pairs)
        self.err2 = []       # recorded-finding hits
        self.completed = 0
        self.raised = []


def check_catalogue(run, label, rows, job, inp=None):
    ctx = run.ctx
    rep = cc.oracle_catalogue(rows)
    fails, pu, uu, cont = rep
    hard = [(r, f) for r, f in zip(rows, fails) if f]
    if hard or not (pu and uu and cont):
        msgs = row_msgs([h[0] for h in hard], [h[1] for h in hard])
        what = (f'oracle on {label}: {len(hard)} rows violate a clause; pairs unique={pu} uuids unique={uu} '
                f'numbered 0..n-1={cont}')
        vjob = job
        if inp is not None and job.get('mode') == 'prior' and job.get('stage') == 3 and not run.err2 and any(is_err2(r, f) or is_errnan(r, f) for r, f in hard):
            # minimise the input catalogue of the first such failure for the report
            def pred(out):
                return any(is_err2(r, f) or is_errnan(r, f) for r, f in zip(out, cc.oracle_catalogue(out)[0]))
            small = shrink_catalogue(inp[0], inp[1], job['stage'], job['regroup'], pred)
            vjob = dict(job, catalogue=small)
            run.err2.append(vjob)
            out, _ = cc.run_priorized(inp[0], small, job['stage'], job['regroup'])
            msgs = row_msgs(out, cc.oracle_catalogue(out)[0]) or msgs
            what += f'; minimal input catalogue: {len(small)} sources'
        ctx.mismatch(what, {'job': vjob}, impl=msgs[:5],
                     is_violation={'kind': 'catalogue', 'job': vjob, 'what': what, 'rows': msgs[:5]})
    run.cats.append((label, rows, rep, job))


def blind_part(run, name, spec, path, img):
    ctx = run.ctx
    det = cc.detect(img)
    job = {'mode': 'blind', 'spec': spec, 'island': True}
    try:
        comps, isles = cc.run_blind(path, doislandflux=True)
        comps0, isles0 = cc.run_blind(path, doislandflux=False)
        run.completed += 2
    except Exception as e:  # noqa
        run.raised.append((name, 'blind', repr(e)))
        ctx.mismatch(f'blind finding raised on image {name}', {'job': job}, impl=repr(e),
                     is_violation={'kind': 'raise', 'job': job, 'what': repr(e)})
        return None, det
    nflag = sum(1 for c in comps if c['flags'])
    ctx.case(key=f'blind:{cc.dump(spec)}' if comps else None, bucket=f'blind {len(det)} islands',
             sample={'image': name, 'islands': len(det), 'components': len(comps), 'flagged': nflag} if comps else None)
    ctx.case(key=f'blind+island:{cc.dump(spec)}' if comps else None, bucket='blind+island rows')
    check_catalogue(run, f'{name}/blind+island', comps, job)
    check_catalogue(run, f'{name}/blind', comps0, {'mode': 'blind', 'spec': spec, 'island': False})
    if isles0:
        ctx.mismatch(f'{name}: island rows without doislandflux', {'job': job}, impl=len(isles0))
    if cc.strip_uuid(comps) != cc.strip_uuid(comps0):
        ctx.mismatch(f'{name}: component rows differ between doislandflux on and off', {'job': job},
                     is_violation={'kind': 'catalogue', 'job': job, 'what': 'doislandflux changes the component rows'})
    msgs = cc.oracle_islands(comps, isles, det)
    if msgs:
        ctx.mismatch(f'{name}: island rows disagree with component rows / detected pixels', {'job': job}, impl=msgs[:6],
                     is_violation={'kind': 'islands', 'job': job, 'what': msgs[:6]})
    run.isl.append((name, comps, isles, det))
    # flags of each component against the model of Aegean's own flag logic
    count = {}
    for c in comps:
        count[c['island']] = count.get(c['island'], 0) + 1
    byext = {tuple(d['extent']): d for d in det}
    isl_det = {i['island']: byext.get(tuple(i['extent'])) for i in isles}
    for c in comps:
        n = c['island']
        d = isl_det.get(n)
        if d is not None:
            run.flagcases.append((name, n, d['npix'], d['mindim'], count[n], c['flags']))
    return comps, det


EXT_IMAGES = ('mosaic45', 'rand0', 'rand1', 'nonsquare')


def prior_part(run, name, spec, path, comps, stages, regroups):
    ctx = run.ctx
    cat = list(comps) + outside_sources(comps)
    use = usable_mask(path, cat)
    idx = {c['uuid']: k for k, c in enumerate(cat)}
    for regroup in regroups:
        for stage in stages:
            job = {'mode': 'prior', 'spec': spec, 'stage': stage, 'regroup': regroup, 'outside': True}
            rec = []
            try:
                pc, pi = cc.run_priorized(path, cat, stage, regroup, record=rec)
                run.completed += 1
            except Exception as e:  # noqa
                run.raised.append((name, f'prior{stage}', repr(e)))
                ctx.mismatch(f'priorized fitting (stage {stage}, regroup {regroup}) raised on image {name}', {'job': job},
                             impl=repr(e), is_violation={'kind': 'raise', 'job': job, 'what': repr(e)})
                continue
            # the island groups of this run (observed), and how many sources of each are usable
            groups = [[idx[u] for u in g if u in idx] for g in rec]
            if not regroup and groups != groups_without_regroup(cat):
                ctx.mismatch(f'{name}: island_itergen groups are not the islands of the input catalogue in order', {'job': job})
            model_groups = []
            for g in groups:
                n = sum(1 for k in g if use[k])
                model_groups.append(n if n > 0 else None)
            ctx.case(key=f'prior:{stage}:{regroup}:{cc.dump(spec)}' if pc else None,
                     bucket=f'priorized stage {stage} regroup {"on" if regroup else "off"}',
                     sample={'image': name, 'stage': stage, 'regroup': regroup, 'groups': len(groups), 'rows': len(pc)}
                     if (pc and stage == 1 and len(groups) > 20) else None)
            ctx.hist[f'groups>20: {len(groups) > 20}'] = ctx.hist.get(f'groups>20: {len(groups) > 20}', 0) + 1
            check_catalogue(run, f'{name}/prior{stage}{"r" if regroup else "n"}', pc, job, inp=(path, cat))
            # uuids are preserved from the input catalogue
            inuu = {c['uuid'] for c in cat}
            if not all(c['uuid'] in inuu for c in pc):
                ctx.mismatch(f'{name}: priorized output has uuids that are not in the input catalogue', {'job': job})
            run.numcases.append((f'{name}/prior{stage}{"r" if regroup else "n"}', model_groups,
                                 sorted((c['island'], c['source'], c['uuid']) for c in pc), job,
                                 [[cat[k]['uuid'] for k in g if use[k]] for g in groups]))
    # second generation: the input catalogue is itself a priorized output (flags already carry PRIORIZED)
    if name in ('mosaic45', 'rand0') and cat:
        try:
            first, _ = cc.run_priorized(path, cat, 2, False)
            job = {'mode': 'prior2', 'spec': spec, 'stage': 1, 'regroup': False, 'outside': True}
            again, _ = cc.run_priorized(path, first, 1, False)
            run.completed += 2
            ctx.case(key=f'prior2:{cc.dump(spec)}' if again else None, bucket='priorized on a priorized catalogue')
            check_catalogue(run, f'{name}/prior-of-prior', again, job)
        except Exception as e:  # noqa
            ctx.mismatch(f'{name}: priorized fitting of a priorized catalogue raised', {'spec': spec}, impl=repr(e),
                         is_violation={'kind': 'raise', 'job': {'mode': 'prior2', 'spec': spec}, 'what': repr(e)})
    # third-party input catalogues: files without uuid / island / source / err_* columns (csv, vot), or with masked uuid cells
    # (fits; a VOTable cannot mask a string cell: it would hold the same empty uuid in every row, i.e. duplicate input uuids)
    if cat and name in EXT_IMAGES:
        for how, ext, stage, regroup in (('nouuid', 'csv', 1, True), ('masked', 'fits', 2, False), ('nouuid', 'vot', 3, True),
                                           ('zeroerr', 'csv', 1, False), ('zeroerr', 'fits', 2, True)):
            job = {'mode': 'prior_ext', 'spec': spec, 'stage': stage, 'regroup': regroup, 'outside': True, 'how': how, 'ext': ext}
            try:
                fname = cc.write_external_catalogue(cat, os.path.join(ctx.work, f'ext_{name}_{how}.{ext}'), how)
                pc, _ = cc.run_priorized_file(path, fname, stage, regroup)
                run.completed += 1
            except Exception as e:  # noqa
                run.raised.append((name, f'prior_ext{stage}', repr(e)))
                ctx.mismatch(f'{name}: priorized fitting with a third-party catalogue file ({how}, {ext}) raised', {'job': job},
                             impl=repr(e), is_violation={'kind': 'raise', 'job': job, 'what': repr(e)})
                continue
            ctx.case(key=f'prior_ext:{how}:{ext}:{stage}:{cc.dump(spec)}' if pc else None,
                     bucket=f'priorized stage {stage}, input file without uuids ({how}, {ext})')
            check_catalogue(run, f'{name}/prior-ext-{how}-{ext}', pc, job)
    return cat


# ------------------------------------------------------------------------------------------
# leaf correspondences on the real functions
def leaf_cases(ctx):
    """expressions + expected values computed by the real pa_limit / fix_shape / dec2dms / dec2hms"""
    from AegeanTools import angle_tools
    from AegeanTools.source_finder import fix_shape, pa_limit
    rng = ctx.rng
    exprs, expect, what = [], [], []

    def enc(x):
        x = float(x)
        if math.isnan(x):
            return (3, 0, 1)
        fr = Fraction(x)
        return (0, fr.numerator, fr.denominator)
    pas = [-90, 90, -270, 270, 450, -450, 0, 89.5, -89.5, 90.5, -90.5, 179, -180, 180, 360, -360, 1234, -987.25, float('nan')]
    pas += [rng.randrange(-4000, 4000) / 4 for _ in range(40)]
    for pa in pas:
        r = pa_limit(pa)
        if not math.isnan(pa) and not (-90 < r <= 90 and (Fraction(r) - Fraction(pa)) % 180 == 0):
            ctx.mismatch(f'pa_limit({pa}) = {r}: not the representative of pa modulo 180 in (-90, 90]', pa, impl=r,
                         is_violation={'kind': 'pa_limit', 'pa': pa, 'what': f'pa_limit({pa}) = {r} is outside (-90, 90]'})
        exprs.append(f'fenc_opt (pa_limit_fuel 40 {cc.flit(pa)})')
        expect.append(('Some', enc(r)))
        what.append(('pa_limit', pa))
        ctx.case(key=f'pa_limit:{pa}' if abs(pa) >= 90 else None, bucket='pa_limit')

    class S:
        pass
    for _ in range(40):
        a, b = rng.choice([(30, 45), (45, 30), (30, 30), (1, 2), (2.5, 2.25), (float('nan'), 3), (3, float('nan'))])
        pa = rng.randrange(-360, 360) / 2
        s = S()
        s.a, s.b, s.pa, s.err_a, s.err_b = float(a), float(b), float(pa), 1.0, 2.0
        fix_shape(s)
        if s.a < s.b or sorted([s.a, s.b], key=str) != sorted([float(a), float(b)], key=str):
            ctx.mismatch(f'fix_shape({a}, {b}, {pa}) -> a={s.a} b={s.b}', (a, b, pa),
                         is_violation={'kind': 'fix_shape', 'abpa': (a, b, pa), 'what': f'fix_shape leaves a={s.a} < b={s.b}'})
        exprs.append(f'shape_enc (fix_shape (mkShape {cc.flit(a)} {cc.flit(b)} {cc.flit(pa)} (FZ 1) (FZ 2)))')
        expect.append([enc(v) for v in (s.a, s.b, s.pa, s.err_a, s.err_b)])
        what.append(('fix_shape', (a, b, pa)))
        ctx.case(key=f'fix_shape:{a}:{b}:{pa}' if a < b else None, bucket='fix_shape')
    for _ in range(60):
        n = rng.choice([0, 1, 63, 64, 5759, 5760, rng.randrange(0, 5760), rng.randrange(0, 5760)])   # x = n / 64 degrees
        x = n / 64.0
        sdec = angle_tools.dec2dms(x)
        exprs.append(f'dms_fields {n * 5625}')
        expect.append(tuple(int(v) for v in (sdec[1:3], sdec[4:6], sdec[7:9], sdec[10:12])))
        what.append(('dec2dms', x))
        n2 = rng.choice([0, 23039, 23040, rng.randrange(0, 23040)])
        x2 = n2 / 64.0
        sra = angle_tools.dec2hms(x2)
        exprs.append(f'hms_fields {n2 * 375}')
        expect.append(tuple(int(v) for v in (sra[0:2], sra[3:5], sra[6:8], sra[9:11])))
        what.append(('dec2hms', x2))
        ctx.case(key=f'sexa:{n}:{n2}', bucket='dec2dms/dec2hms')
    return exprs, expect, what


CLS = ['Pos', 'MinusOne', 'NegOther', 'Zero', 'CNan', 'CPInf', 'CNInf', 'PyNone']
REP = {'Pos': 0.05, 'MinusOne': -1.0, 'NegOther': -2.0, 'Zero': 0.0, 'CNan': float('nan'), 'CPInf': float('inf'),
       'CNInf': float('-inf'), 'PyNone': None}


def classify(v):
    if v is None:
        return 7
    v = float(v)
    if math.isnan(v):
        return 4
    if math.isinf(v):
        return 5 if v > 0 else 6
    if v == -1.0:
        return 1
    if v < 0:
        return 2
    if v == 0:
        return 3
    return 0


HUGE = 1e7     # a pixel stderr so large that xo + stderr has no sky coordinate
VALREP = {'Pos': 1.0, 'NegOther': -0.8, 'MinusOne': -1.0, 'Zero': 0.0, 'CNan': float('nan'), 'CPInf': float('inf'),
          'CNInf': float('-inf')}


def run_errors(case, wh):
    """the real fitting.errors on a synthetic model; returns (class codes of the seven outputs, wcserr) or None if it raised"""
    import lmfit
    from AegeanTools import fitting
    from AegeanTools.models import ComponentSource
    m = lmfit.Parameters()
    vals = {'amp': 1.0, 'xo': 40.0 if case['ref'] else 1e6, 'yo': 45.0, 'sx': 2.0, 'sy': 1.5, 'theta': 30.0}
    for p in ('amp', 'xo', 'yo', 'sx', 'sy', 'theta'):
        m.add('c0_' + p, value=vals[p], vary=True if p == 'amp' else case['vary'][p])
        m['c0_' + p].stderr = HUGE if (case['se'][p] == 'Pos' and case.get('huge', {}).get(p)) else REP[case['se'][p]]
    m.add('components', value=1, vary=False)
    s = ComponentSource()
    s.source = 0
    s.flags = case['flags']
    s.peak_flux = VALREP[case['peak']]
    s.a, s.b = 70.0 * VALREP[case.get('a', 'Pos')], 47.0 * VALREP[case.get('b', 'Pos')]
    s.int_flux = 3.7 * VALREP[case['int']]
    try:
        with np.errstate(all='ignore'):
            fitting.errors(s, m, wh)
    except (TypeError, ZeroDivisionError):
        return None
    outs = [s.err_peak_flux, s.err_ra, s.err_dec, s.err_pa, s.err_a, s.err_b, s.err_int_flux]
    return ([classify(v) for v in outs], bool(s.flags & FLAG_WCSERR) and not bool(case['flags'] & FLAG_WCSERR))


def propagated(c):
    """value classes of the sky quantities fitting.errors propagates from the pixel stderr when a branch is taken
    (what pix2sky / gcd / bear return): zero offsets give 0, a huge offset has no sky coordinate (nan)"""
    se, hg = c['se'], c.get('huge', {})

    def one(p):
        if se[p] == 'Zero':
            return 'Zero'
        return 'CNan' if (se[p] == 'Pos' and hg.get(p)) else 'Pos'
    if se['xo'] == 'Zero' and se['yo'] == 'Zero':
        rd = 'Zero'
    elif 'CNan' in (one('xo'), one('yo')):
        rd = 'CNan'
    else:
        rd = 'Pos'
    pa = 'Zero' if se['theta'] == 'Zero' else 'Pos'
    return {'ra': rd, 'dec': rd, 'pa': pa, 'a': one('sx'), 'b': one('sy')}


def error_cases(ctx):
    rng = ctx.rng
    cases = []
    full = {p: True for p in ('xo', 'yo', 'sx', 'sy', 'theta')}
    allpos = {p: 'Pos' for p in ('amp', 'xo', 'yo', 'sx', 'sy', 'theta')}
    # the input classes of Refuted/C03_errors.v (what the pre-repair table did not cover) and the two defects seen on images
    for se in ({p: 'NegOther' for p in allpos}, {p: 'CNan' for p in allpos}, dict(allpos, amp='CNan'), dict(allpos, amp='CPInf'),
               dict(allpos, xo='Zero', yo='Zero', sx='Zero', sy='Zero', theta='Zero'), dict(allpos, xo='PyNone'),
               dict(allpos, amp='PyNone')):
        cases.append({'flags': 0, 'ref': True, 'vary': dict(full), 'se': se, 'peak': 'Pos', 'int': 'Pos'})
    cases.append({'flags': 0, 'ref': True, 'vary': dict(full), 'se': dict(allpos), 'peak': 'Pos', 'int': 'Zero'})
    cases.append({'flags': 5, 'ref': True, 'vary': dict(full, sx=False, sy=False, theta=False), 'se': dict(allpos),
                  'huge': {'xo': True, 'yo': True}, 'peak': 'Pos', 'int': 'Pos'})
    n = 500 if ctx.tier == 'quick' else 6000
    for _ in range(n):
        vary = {p: rng.random() < 0.7 for p in ('xo', 'yo', 'sx', 'sy', 'theta')}
        se = {'amp': rng.choice(CLS)}
        if rng.random() < 0.15:
            se['xo'] = se['yo'] = 'Zero'
        else:
            se['xo'] = rng.choice([c for c in CLS if c != 'Zero'])
            se['yo'] = rng.choice([c for c in CLS if c != 'Zero'])
        for p in ('sx', 'sy', 'theta'):
            se[p] = rng.choice(CLS)
        cases.append({'flags': rng.choice([0, 0, 0, 4, 5, 64, 16, 2, 21, 85]), 'ref': rng.random() < 0.9, 'vary': vary, 'se': se,
                      'huge': {p: rng.random() < 0.25 for p in ('xo', 'yo', 'sx', 'sy')},
                      'peak': rng.choice(['Pos', 'NegOther', 'MinusOne', 'CNan', 'CNInf']),
                      'a': rng.choice(['Pos', 'Pos', 'CNan', 'CPInf']), 'b': rng.choice(['Pos', 'Pos', 'CNan', 'CPInf']),
                      'int': rng.choice(['Pos', 'NegOther', 'Zero', 'MinusOne', 'CNan', 'CPInf'])})
    return cases


def covered(c):
    """the hypotheses of C03_errors_masked: peak, a, b floats other than 0 - every generated case"""
    return c['peak'] != 'Zero' and c.get('a', 'Pos') != 'Zero' and c.get('b', 'Pos') != 'Zero'


def error_expr(c):
    b = lambda v: 'true' if v else 'false'  # noqa: E731
    v, se, pv = c['vary'], c['se'], propagated(c)
    return (f"err_out_enc (errors_model2 (mkErrIn {c['flags']}%N {b(c['ref'])} {b(v['xo'])} {b(v['yo'])} {b(v['sx'])} {b(v['sy'])} "
            f"{b(v['theta'])} {se['amp']} {se['xo']} {se['yo']} {se['sx']} {se['sy']} {se['theta']} {c['peak']} {c.get('a', 'Pos')} "
            f"{c.get('b', 'Pos')} {c['int']}) (mkErrProp {pv['ra']} {pv['dec']} {pv['pa']} {pv['a']} {pv['b']}))")


# ------------------------------------------------------------------------------------------
def fresh_process(ctx, jobs):
    runner = os.path.join(vlib.VERIF, 'tools', 'harness', 'c03_runner.py')
    r = subprocess.run(['timeout', '600', vlib.PY, runner, json.dumps({'jobs': jobs})], capture_output=True, text=True)
    for line in r.stdout.splitlines():
        if line.startswith('RESULT '):
            return json.loads(line[7:])
    return None


def recorded(ctx, key):
    for kind, text in vlib.known_findings(ctx.pid):
        if kind == 'finding' and KNOWN[key] in text:
            return text
    return None


def err2_probe(ctx, run):
    """priorized stage 3 on regrouped tiny sources: the covariance matrix is singular, covar_errors falls back to a
    value that fitting.errors must mask (it was -2, copied into err_peak_flux, before the repair).  Dense mosaics
    (12-pixel cells) regroup everything into few islands."""
    for seed in (0, 1, 2):
        spec = {'seed': seed, 'ncell': 4, 'cell': 12, 'nsrc': 16, 'kinds': ['iso', 'px1', 'px3', 'pair', 'px2', 'faintpair']}
        path = os.path.join(ctx.work, f'dense{seed}.fits')
        cc.write_spec_image(spec, path)
        try:
            comps, _ = cc.run_blind(path)
            check_catalogue(run, f'dense{seed}/blind', comps, {'mode': 'blind', 'spec': spec, 'island': False})
            pc, _ = cc.run_priorized(path, comps, 3, True)
            run.completed += 2
        except Exception as e:  # noqa
            ctx.mismatch(f'dense mosaic {seed}: finder raised', {'spec': spec}, impl=repr(e),
                         is_violation={'kind': 'raise', 'job': {'mode': 'prior', 'spec': spec, 'stage': 3, 'regroup': True}, 'what': repr(e)})
            continue
        ctx.case(key=f'dense:{seed}', bucket='priorized stage 3 regroup on')
        check_catalogue(run, f'dense{seed}/prior3r', pc, {'mode': 'prior', 'spec': spec, 'stage': 3, 'regroup': True, 'outside': False},
                        inp=(path, comps))


def shrink_catalogue(path, cat, stage, regroup, pred):
    cur = list(cat)
    changed = True
    t0 = time.time()
    while changed and time.time() - t0 < 60:
        changed = False
        for k in range(len(cur)):
            new = cur[:k] + cur[k + 1:]
            if not new:
                continue
            try:
                pc, _ = cc.run_priorized(path, new, stage, regroup)
            except Exception:  # noqa
                continue
            if pred(pc):
                cur = new
                changed = True
                break
    return cur


# ------------------------------------------------------------------------------------------
def run(ctx, model_ok=True):
    t0 = time.time()
    quick = ctx.tier == 'quick'
    ctx.rule = ('images: empty, single source, 45- and 60-island mosaics (isolated / blended pairs / 1-3 pixel islands / negative / '
                'pos+neg joined / bright / elongated / edge sources / NaN blocks), non-square pixels, rotated CDi_j and PCi_j headers, '
                '24- and 19-degree SIN / TAN fields with elongated sources, random 3x3 mosaics at varied crval and beam; per image: blind with and without island rows, priorized stages 1-3 x regroup on/off on the blind '
                'catalogue + 2 sources outside the image. Every row -> Python oracle of the clauses and Coq cat_ok/row_failures; island '
                'rows -> detection by an independent flood fill; flags -> model of the small-island logic; (island, source) pairs -> '
                'model numbering; errors(): 500+ synthetic stderr classes; pa_limit/fix_shape/dec2dms on exact inputs. '
                'distinct = distinct (image spec, mode, stage, regroup) with at least one row, or distinct non-trivial leaf input.')
    run_ = Run(ctx)
    # ---- leaf correspondences
    lex, lexp, lwhat = leaf_cases(ctx)
    # ---- errors decision table
    from AegeanTools.wcs_helpers import WCSHelper
    from fixtures import make_header
    wh = WCSHelper.from_header(make_header((80, 90)))
    ecases = error_cases(ctx)
    ereal = [run_errors(c, wh) for c in ecases]
    for c in ecases:
        ctx.case(key='err:' + cc.dump(c), bucket='errors() decision table')
    # ---- the real finder
    repro_jobs = []
    for name, spec in specs_for(ctx):
        path = os.path.join(ctx.work, f'{name}.fits')
        img = cc.write_spec_image(spec, path)
        comps, det = blind_part(run_, name, spec, path, img)
        if comps is None:
            continue
        if name in ('mosaic60', 'mosaic45') or name.startswith('big'):
            stages, regroups = (1, 2, 3), (True, False)
        elif name == 'nonsquare':
            stages, regroups = (1, 2), (True, False)
        else:
            stages, regroups = (1, 3), (True,) if quick else (True, False)
        cat = prior_part(run_, name, spec, path, comps, stages, regroups) if comps else []
        if name in ('mosaic45', 'rand0', 'rand1') or (not quick and name in ('mosaic60', 'nonsquare')):
            cpath = os.path.join(ctx.work, f'{name}_cat.json')
            with open(cpath, 'w') as fh:
                json.dump(cat, fh)
            repro_jobs.append((name, {'mode': 'blind', 'path': path, 'island': True}))
            if cat:
                repro_jobs.append((name, {'mode': 'prior', 'path': path, 'cat': cpath, 'stage': 2, 'regroup': True}))
                repro_jobs.append((name, {'mode': 'prior', 'path': path, 'cat': cpath, 'stage': 3, 'regroup': False}))
    ctx.notes.append(f'real finder: {run_.completed} runs completed, {len(run_.raised)} raised, {time.time() - t0:.1f}s')
    ctx.oblige(f'completion: {run_.completed} blind / priorized runs returned a catalogue (none raised)', not run_.raised,
               run_.raised[:3])
    # ---- dense mosaics: priorized stage 3 on regrouped tiny sources (singular covariance matrices)
    err2_probe(ctx, run_)
    # ---- errors(): the clause itself on the synthetic stderr classes (after the images, so that a real image is the
    # first failing input when both fail)
    nbad = 0
    for c, real in zip(ecases, ereal):
        if covered(c) and (real is None or any(x not in (0, 1) for x in real[0])):
            nbad += 1
            if nbad <= 3:
                what = (f'fitting.errors returns value classes {real} for (err_peak_flux, err_ra, err_dec, err_pa, err_a, err_b, '
                        'err_int_flux) (0 = positive finite, 1 = exactly -1, 2 = other negative, 3 = zero, 4 = nan, 5/6 = inf, '
                        'None = raised): an uncertainty that is neither positive-finite nor -1')
                ctx.mismatch(what, c, impl=real, is_violation={'kind': 'errors', 'case': c, 'what': what})
    ctx.oblige(f'errors(): every err_* positive-finite or -1 on {sum(1 for c in ecases if covered(c))} inputs over the full domain of '
               'C03_errors_masked (stderr positive / zero / negative / nan / inf / None, huge stderr, nan / inf peak, a, b, int_flux)',
               nbad == 0, f'{nbad} inputs')
    # ---- reproducibility: same process again, then a fresh process
    t1 = time.time()

    def do(job):
        if job['mode'] == 'blind':
            return cc.run_blind(job['path'], doislandflux=job['island'])
        with open(job['cat']) as fh:
            return cc.run_priorized(job['path'], json.load(fh), job['stage'], job['regroup'])
    first = [do(j) for _, j in repro_jobs]
    second = [do(j) for _, j in repro_jobs]
    fresh = fresh_process(ctx, [j for _, j in repro_jobs])
    nrep = 0
    if fresh is None:
        ctx.oblige('reproducibility: fresh-process runner returned results', False, 'runner produced no RESULT line')
    else:
        for (name, job), a, b, f in zip(repro_jobs, first, second, fresh):
            fa = (cc.strip_uuid(a[0]), cc.strip_uuid(a[1]))
            ok = fa == (cc.strip_uuid(b[0]), cc.strip_uuid(b[1]))
            okf = f.get('ok') and fa == (cc.strip_uuid(f['comps']), cc.strip_uuid(f['isles']))
            same_uuid = job['mode'] == 'blind' and a[0] and [r['uuid'] for r in a[0]] == [r['uuid'] for r in b[0]]
            ctx.case(key=f'repro:{name}:{cc.dump(job)}', bucket='reproducibility (in-process + fresh process)')
            nrep += 1
            if not ok or not okf or same_uuid:
                what = (f'{name}: rerun differs (in-process equal={ok}, fresh process equal={bool(okf)}, '
                        f'uuids repeated={bool(same_uuid)})')
                ctx.mismatch(what, {'job': job}, is_violation={'kind': 'repro', 'job': job, 'what': what})
        ctx.oblige(f'reproducibility: {nrep} runs repeated in-process and in a fresh process give identical catalogues apart from uuids',
                   not any(f['kind'] == 'correspondence' and 'rerun differs' in f['what'] for f in ctx.failures))
    ctx.notes.append(f'reproducibility runs {time.time() - t1:.1f}s')
    # ---- wide-field int_flux: the recorded finding, replayed on the implementation
    widefield(ctx, run_)
    # ---- Coq pass
    if model_ok:
        coq_pass(ctx, run_, lex, lexp, lwhat, ecases, ereal)
    ctx.traces = run_.completed
    ctx.hyp['lmfit/MINPACK: every fit returns; stderr of fitted parameters positive-finite or masked (rows of real runs)'] = \
        sum(len(c[1]) for c in run_.cats)
    ctx.hyp['astropy WCS pix2sky / sky2pix finite inside the image'] = sum(len(c[1]) for c in run_.cats)
    ctx.hyp['scipy.ndimage.label detection = islands reported in the island rows'] = sum(len(i[2]) for i in run_.isl)
    ctx.hyp['cluster.regroup_dbscan groups = groups used by priorized_fit_islands (numbering correspondence)'] = \
        sum(1 for n in run_.numcases if n[3]['regroup'])
    # ---- command line tie: the argument glue of AegeanTools/CLI vs the library call that --help promises
    from harness import cli_cases
    cli_cases.hook(ctx, cli_cases.aegean_table_cli, 'aegean')
    c03x.run_extra(ctx, model_ok)


def widefield(ctx, run_):
    from fixtures import make_header, write_image
    shape = (64, 64)
    img = np.zeros(shape) + cc.gauss(shape, 1.0, 58, 58, 3.0, 1.3, 45) + cc.gauss(shape, 1.0, 32, 32, 3.0, 1.3, 45)
    path = os.path.join(ctx.work, 'wide.fits')
    write_image(path, img.astype(np.float32), make_header(shape, cdelt=1.0, beam=(3.0, 3.0, 0.0)))
    comps, _ = cc.run_blind(path)
    bad = [(c, f) for c, f in zip(comps, cc.oracle_catalogue(comps)[0]) if f]
    ctx.case(key='widefield', bucket='wide field')
    if bad and all(f == [9] for _, f in bad):
        text = recorded(ctx, 'widefield')
        c = bad[0][0]
        exp = c['peak_flux'] * c['a'] * c['b'] / (c['psf_a'] * c['psf_b'])
        if text:
            ctx.known_lines.append(text)
        else:
            what = (f"int_flux {c['int_flux']:.4f} vs peak*a*b/(psf_a*psf_b) {exp:.4f} ({abs(c['int_flux'] - exp) / abs(exp) * 100:.1f} %) "
                    f"for an elongated source ~37 deg from the SIN reference point (1 deg pixels)")
            ctx.mismatch(what, {'image': 'wide'}, is_violation={'kind': 'widefield', 'what': what})
    elif bad:
        ctx.mismatch('wide-field image: other clauses fail', row_msgs([b[0] for b in bad], [b[1] for b in bad])[:3])


def coq_pass(ctx, run_, lex, lexp, lwhat, ecases, ereal):
    exprs, handlers = [], []

    def add(e, h):
        exprs.append(e)
        handlers.append(h)
    # leaves
    for e, exp, w in zip(lex, lexp, lwhat):
        add(e, ('leaf', exp, w))
    for c, real in zip(ecases, ereal):
        add(error_expr(c), ('err', c, real))
    # _known_error (uncertainties copied from the input catalogue by priorized fitting) = Model.copied_error, per value class
    from AegeanTools import source_finder as _sfm
    kfun = getattr(_sfm, '_known_error', None) or (lambda e: e)   # a tree with the plain copy: the model switch is false there
    for nm, val in REP.items():
        if val is None:
            continue
        add(f'cls_code (copied_error (cls_of_code {classify(val)}))', ('copy', nm, classify(kfun(val))))
    # catalogues
    for label, rows, rep, job in run_.cats:
        add(f'let c := {cc.catlit(rows)} in (cat_report c, cat_ok c)', ('cat', label, rows, rep, job))
    for name, comps, isles, det in run_.isl:
        byext = {tuple(d['extent']): d for d in det}
        pairs = [(i, byext[tuple(i['extent'])]) for i in isles if tuple(i['extent']) in byext]
        lit = '[' + '; '.join(f'({cc.irowlit(i, d)})' for i, d in pairs) + ']'
        add(f'islands_ok {cc.catlit(comps)} {lit}', ('isl', name, len(isles), len(pairs)))
        order = [(i['island'], [tuple(d['extent']) for d in det].index(tuple(i['extent'])) + 1) for i in isles if tuple(i['extent']) in byext]
        add(f'blind_ids (repeat true {len(det)})', ('bids', name, sorted({c["island"] for c in comps}), len(det), order))
    seen = {}
    for name, n, npix, mindim, ncomp, flags in run_.flagcases:
        seen.setdefault((npix, mindim, ncomp), []).append((name, n, flags))
    for (npix, mindim, ncomp), users in seen.items():
        add(f'blind_flags {npix} {mindim} {ncomp}', ('flags', (npix, mindim, ncomp), users))
    for label, groups, pairs, job, guu in run_.numcases:
        lit = '[' + '; '.join('None' if g is None else f'Some {g}' for g in groups) + ']'
        add(f'(priorized_islands_with istart group_size {lit}, priorized_rows {lit})', ('num', label, groups, pairs, job, guu))
    tq = time.time()
    order = sorted(range(len(exprs)), key=lambda k: -len(exprs[k]))
    # interleave long and short expressions so that the shards have similar sizes
    nshard = max(1, min(12, len(exprs) // 8))
    buckets = [[] for _ in range(nshard)]
    for pos, k in enumerate(order):
        buckets[pos % nshard].append(k)
    size = max(len(b) for b in buckets)
    padded = []
    for b in buckets:
        padded += b + [None] * (size - len(b))
    vals_p, err = vlib.coq_eval(ctx, cc.IMPORTS, [exprs[k] if k is not None else 'tt' for k in padded], shard=size, workers=12)
    vals = None
    if vals_p is not None:
        vals = [None] * len(exprs)
        for k, v in zip(padded, vals_p):
            if k is not None:
                vals[k] = v
    ctx.notes.append(f'Coq pass: {len(exprs)} expressions in {time.time() - tq:.1f}s')
    if vals is None:
        ctx.oblige('model evaluation (vm_compute) of Model.CatalogRows', False, err)
        return
    bad = {'leaf': 0, 'err': 0, 'cat': 0, 'isl': 0, 'flags': 0, 'num': 0, 'bids': 0}
    nflag = nrows = 0
    for v, h in zip(vals, handlers):
        kind = h[0]
        if kind == 'leaf':
            _, exp, w = h
            got = v
            if isinstance(exp, tuple) and exp and exp[0] == 'Some':
                ok = isinstance(got, tuple) and got[0] == 'Some' and tuple(got[1]) == tuple(exp[1])
            elif isinstance(exp, list):
                ok = [tuple(x) for x in got] == [tuple(x) for x in exp]
            else:
                ok = tuple(got) == tuple(exp)
            if not ok:
                bad['leaf'] += 1
                viol = None
                if w[0] == 'pa_limit' and exp[1][0] == 0:
                    r = Fraction(exp[1][1], exp[1][2])
                    if not (-90 < r <= 90):
                        viol = {'kind': 'pa_limit', 'pa': w[1], 'what': f'pa_limit({w[1]}) = {float(r)} is outside (-90, 90]'}
                if w[0] == 'fix_shape':
                    a2, b2 = exp[0], exp[1]
                    if a2[0] == 0 and b2[0] == 0 and Fraction(a2[1], a2[2]) < Fraction(b2[1], b2[2]):
                        viol = {'kind': 'fix_shape', 'abpa': w[1], 'what': f'fix_shape{w[1]} leaves a < b'}
                ctx.mismatch(f'{w[0]} on {w[1]}: implementation vs model', w[1], impl=exp, model=got, is_violation=viol)
        elif kind == 'err':
            _, c, real = h
            model = None if v is None else ([int(x) for x in v[1][0]], bool(v[1][1]))
            realn = None if real is None else (list(real[0]), bool(real[1]))
            if model != realn:
                bad['err'] += 1
                viol = None
                ctx.mismatch('fitting.errors vs Model.errors_model2 (value classes)', c, impl=realn, model=model, is_violation=viol)
        elif kind == 'copy':
            _, nm, real = h
            ctx.case(key=f'copied_error:{nm}', bucket='uncertainty copied from the input catalogue')
            if v is None or int(v) != real:
                bad['err'] += 1
                ctx.mismatch('_known_error vs Model.copied_error (value classes)', {'class': nm}, impl=real, model=v)
        elif kind == 'cat':
            _, label, rows, rep, job = h
            mfails, mpu, muu, mcont, okflag = v      # Coq prints nested pairs flat
            mfails = [[int(x) for x in f] for f in mfails]
            nrows += len(rows)
            if (mfails, mpu, muu, mcont) != (rep[0], rep[1], rep[2], rep[3]):
                bad['cat'] += 1
                diff = [(r['island'], r['source'], a, b) for r, a, b in zip(rows, rep[0], mfails) if a != b][:4]
                ctx.mismatch(f'{label}: Python oracle and Coq row_failures / cat_report disagree', {'job': job},
                             impl={'oracle': diff, 'flags': rep[1:]}, model=(mpu, muu, mcont))
            clean = all(not f for f in rep[0]) and rep[1] and rep[2] and rep[3]
            if bool(okflag) != clean:
                bad['cat'] += 1
                ctx.mismatch(f'{label}: cat_ok = {okflag} but the oracle says clean = {clean}', {'job': job})
        elif kind == 'isl':
            _, name, nis, npairs = h
            if v is not True or nis != npairs:
                bad['isl'] += 1
                ctx.mismatch(f'{name}: Model.islands_ok is false on the island rows', {'islands': nis, 'matched': npairs})
        elif kind == 'bids':
            _, name, used, ndet, order = h
            ids = [int(x) for x in v]
            # the k-th detected island (scipy label order) carries the k-th number of the model counter
            wrong = [(n, k) for n, k in order if not (1 <= k <= len(ids)) or ids[k - 1] != n]
            if not set(used) <= set(ids) or wrong:
                bad['bids'] += 1
                ctx.mismatch(f'{name}: blind island numbers are not the model counter values in detection order', {'image': name},
                             impl=wrong[:6], model=ids[:8])
        elif kind == 'flags':
            _, key, users = h
            for name, n, flags in users:
                nflag += 1
                if (flags & ~(FLAG_FITERR | FLAG_WCSERR)) != int(v):
                    bad['flags'] += 1
                    if bad['flags'] <= 3:
                        ctx.mismatch(f'{name}: flags of island {n} = {flags}, model blind_flags{key} = {v} (FITERR/WCSERR ignored)',
                                     {'island': n, 'npix/mindim/ncomp': key}, impl=flags, model=int(v))
        elif kind == 'num':
            _, label, groups, triples, job, guu = h
            isl_model, rows_model = v
            exp = sorted((int(a), int(b)) for a, b in rows_model)
            got = [(p[0], p[1]) for p in triples]
            # component j of the island numbered for the k-th fitted group is the j-th usable source of that group
            fitted = [u for u, g in zip(guu, groups) if g is not None]
            uu_exp = {}
            for (iid, n), us in zip(isl_model, fitted):
                for j, u in enumerate(us):
                    uu_exp[(int(iid), j)] = u
            wrong_uu = [(i, s) for i, s, u in triples if uu_exp.get((i, s)) != u]
            isl_exp = {}
            for i, s in exp:
                isl_exp.setdefault(i, []).append(s)
            isl_got = {}
            for i, s in got:
                isl_got.setdefault(i, []).append(s)
            ok = all(i in isl_exp and sorted(isl_got[i]) == sorted(isl_exp[i]) for i in isl_got)
            missing = len(isl_exp) - len(isl_got)
            if wrong_uu:
                ok = False
            if not ok or missing > max(2, len(isl_exp) // 5):
                bad['num'] += 1
                ctx.mismatch(f'{label}: (island, source) pairs differ from Model.priorized_rows', {'job': job},
                             impl=[p for p in got if p not in exp][:6], model=[p for p in exp if p not in got][:6],
                             is_violation={'kind': 'catalogue', 'job': job, 'what': 'priorized island / source numbers are not the '
                                           'ones the batching model assigns'} if not ok else None)
    nleaf = len(lex)
    ctx.oblige(f'correspondence: pa_limit / fix_shape / dec2dms / dec2hms = model on {nleaf} exact inputs', bad['leaf'] == 0)
    ctx.oblige(f'correspondence: fitting.errors = Model.errors_model2 on {len(ecases)} stderr-class inputs '
               f'(incl. the input classes of Refuted/C03_errors.v)', bad['err'] == 0, f"{bad['err']} differ")
    ctx.oblige(f'rows: {nrows} rows of {len(run_.cats)} catalogues through Coq row_failures / cat_ok = Python oracle', bad['cat'] == 0)
    ctx.oblige(f'island rows of {len(run_.isl)} images: Model.islands_ok; island numbers = model blind_ids', bad['isl'] + bad['bids'] == 0)
    ctx.oblige(f'flags: {nflag} blind components = Model.blind_flags(npix, mindim, ncomp) modulo FITERR/WCSERR', bad['flags'] == 0)
    ctx.oblige(f'numbering: {len(run_.numcases)} priorized runs = Model.priorized_rows (skipped groups leave holes)', bad['num'] == 0)


# ------------------------------------------------------------------------------------------
def job_run(ctx, job):
    """re-run a stored job; returns (rows, isles, det, cat)"""
    spec = job['spec']
    path = os.path.join(ctx.work, 'replay.fits')
    img = cc.write_spec_image(spec, path)
    if job['mode'] == 'blind':
        comps, isles = cc.run_blind(path, doislandflux=job.get('island', False))
        return comps, isles, cc.detect(img), None
    comps, _ = cc.run_blind(path)
    cat = job.get('catalogue') or (list(comps) + (outside_sources(comps) if job.get('outside') else []))
    if job['mode'] == 'prior2':
        cat, _ = cc.run_priorized(path, cat, 2, False)
    if job['mode'] == 'prior_ext':
        fname = cc.write_external_catalogue(cat, os.path.join(ctx.work, f"replay_ext.{job['ext']}"), job['how'])
        pc, pi = cc.run_priorized_file(path, fname, job['stage'], job['regroup'])
        return pc, pi, None, cat
    pc, pi = cc.run_priorized(path, cat, job['stage'], job['regroup'])
    return pc, pi, None, cat


def unrecorded(ctx, rows, fails, mode):
    """row failures that are not covered by a recorded finding (no row-level finding is recorded for C03)"""
    return list(fails)


def search(ctx):
    """the property's oracle directly on the implementation over a seeded stream of images"""
    extra = c03x.search_extra(ctx)
    if extra:
        return extra
    rng = ctx.rng
    t0 = time.time()
    k = 0
    while time.time() - t0 < 150:
        k += 1
        dense = k % 2 == 0
        spec = {'seed': rng.randrange(1 << 30), 'ncell': rng.choice([3, 5]), 'cell': 12 if dense else 24, 'nsrc': rng.randint(3, 25),
                'kinds': [rng.choice(cc.KINDS) for _ in range(8)], 'edge': rng.random() < 0.3, 'nanblock': rng.random() < 0.3}
        if k % 3 == 1:
            spec['crval'] = (rng.choice([-5.0, -0.01, 359.99, 0.02]), rng.choice([-30.0, 45.0]))
        path = os.path.join(ctx.work, 'search.fits')
        img = cc.write_spec_image(spec, path)
        job = {'mode': 'blind', 'spec': spec, 'island': True}
        try:
            comps, isles = cc.run_blind(path, doislandflux=True)
        except Exception as e:  # noqa
            return {'kind': 'raise', 'job': job, 'what': repr(e)}
        rep = cc.oracle_catalogue(comps)
        rep = (unrecorded(ctx, comps, rep[0], 'blind'),) + tuple(rep[1:])
        if any(rep[0]) or not all(rep[1:]):
            return {'kind': 'catalogue', 'job': job, 'what': 'blind catalogue violates a clause', 'rows': row_msgs(comps, rep[0])[:4]}
        msgs = cc.oracle_islands(comps, isles, cc.detect(img))
        if msgs:
            return {'kind': 'islands', 'job': job, 'what': msgs[:4]}
        if not comps:
            continue
        for stage in (3, 1, 2):
            for regroup in (True, False):
                job = {'mode': 'prior', 'spec': spec, 'stage': stage, 'regroup': regroup, 'outside': False}
                try:
                    pc, _ = cc.run_priorized(path, comps, stage, regroup)
                except Exception as e:  # noqa
                    return {'kind': 'raise', 'job': job, 'what': repr(e)}
                rep = cc.oracle_catalogue(pc)
                rep = (unrecorded(ctx, pc, rep[0], 'prior'),) + tuple(rep[1:])
                if any(rep[0]) or not all(rep[1:]):
                    def pred(rows):
                        r2 = cc.oracle_catalogue(rows)
                        return any(unrecorded(ctx, rows, r2[0], 'prior')) or not all(r2[1:])
                    small = shrink_catalogue(path, comps, stage, regroup, pred)
                    pc2, _ = cc.run_priorized(path, small, stage, regroup)
                    rep2 = cc.oracle_catalogue(pc2)
                    rep2 = (unrecorded(ctx, pc2, rep2[0], 'prior'),) + tuple(rep2[1:])
                    job['catalogue'] = small
                    return {'kind': 'catalogue', 'job': job, 'what': f'priorized catalogue violates a clause; pairs unique={rep2[1]} '
                            f'uuids unique={rep2[2]} numbered={rep2[3]}', 'rows': row_msgs(pc2, rep2[0])[:4]}
    return None


def replay(ctx, obj):
    fi = obj.get('failing_input')
    if not fi:
        print('replay file has no concrete input; broken obligations were:')
        for b in obj.get('broken', []):
            print('  ', b.get('what'), str(b.get('detail', b.get('case', '')))[:400])
        return 1
    if fi.get('kind') == 'cli':
        from harness import cli_cases
        return cli_cases.replay_cli(ctx, fi)
    if fi.get('kind') == 'order':
        return c03x.replay_extra(ctx, fi)
    kind = fi.get('kind')
    if kind in ('catalogue', 'raise', 'islands', 'repro'):
        job = fi['job']
        if 'spec' not in job:
            print('stored job has file paths only; re-run the check')
            return 1
        try:
            rows, isles, det, cat = job_run(ctx, job)
        except Exception as e:  # noqa
            print('implementation: raised', repr(e))
            return 1
        rep = cc.oracle_catalogue(rows)
        msgs = row_msgs(rows, rep[0])
        print(f'implementation: {len(rows)} rows; rows violating a clause: {len(msgs)}; pairs unique={rep[1]} uuids unique={rep[2]} '
              f'numbered 0..n-1={rep[3]}')
        for m in msgs[:5]:
            print('  ', json.dumps(m)[:600])
        im = cc.oracle_islands(rows, isles, det) if det is not None and job.get('island') else []
        for m in im[:5]:
            print('  ', m)
        bad = bool(msgs) or not all(rep[1:]) or bool(im)
        if kind == 'repro':
            rows2 = job_run(ctx, job)[0]
            same = cc.strip_uuid(rows) == cc.strip_uuid(rows2)
            print('  rerun identical apart from uuids:', same)
            bad = bad or not same
        print('implementation:', 'property violated on this input' if bad else 'property holds on this input')
        return 1 if bad else 0
    if kind == 'pa_limit':
        from AegeanTools.source_finder import pa_limit
        r = pa_limit(fi['pa'])
        print(f'implementation: pa_limit({fi["pa"]}) = {r}')
        return 0 if -90 < r <= 90 else 1
    if kind == 'fix_shape':
        from AegeanTools.source_finder import fix_shape

        class S:
            pass
        s = S()
        s.a, s.b, s.pa = (float(v) for v in fi['abpa'])
        s.err_a, s.err_b = 1.0, 2.0
        fix_shape(s)
        print(f'implementation: fix_shape{tuple(fi["abpa"])} -> a={s.a} b={s.b} pa={s.pa}')
        return 0 if not (s.a < s.b) else 1
    if kind == 'errors':
        from AegeanTools.wcs_helpers import WCSHelper
        from fixtures import make_header
        real = run_errors(fi['case'], WCSHelper.from_header(make_header((80, 90))))
        print('implementation: fitting.errors output classes (0 positive, 1 exactly -1, 2 other negative, 3 zero, 4 nan, 5 +inf, 6 -inf, '
              f'7 None; None = raised): {real}')
        return 0 if (real is not None and all(x in (0, 1) for x in real[0])) else 1
    if kind == 'widefield':
        run_ = Run(ctx)
        widefield(ctx, run_)
        print('implementation:', [f['what'] for f in ctx.failures] or 'int_flux agrees within 1 %')
        return 1 if ctx.failures else 0
    print('unknown replay kind', kind)
    return 1
