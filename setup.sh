#!/bin/bash
# build the whole Coq development from files on disk (offline)
set -e
cd "$(dirname "$0")"
export PYTHONPATH=/repo PYTHONHASHSEED=0
/venv/bin/python tools/translate.py || true
cd coq
coq_makefile -f _CoqProject -o Makefile
timeout 3400 make -j16
