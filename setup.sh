#!/bin/bash
# build the whole Coq development from files on disk (offline)
set -e
cd "$(dirname "$0")"
export AEGEAN_REPO="${AEGEAN_REPO:-/repo}"
export PYTHONPATH="$AEGEAN_REPO" PYTHONHASHSEED=0
/venv/bin/python tools/translate.py --repo "$AEGEAN_REPO" || true
/venv/bin/python -c "import sys; sys.path.insert(0,'tools'); import vlib; vlib.write_coqproject()"
cd coq
coq_makefile -f _CoqProject -o Makefile
timeout 3400 make -j16
